(* zipContains (the heuristic local-header walk) and the detectors built on it; CRX. *)
From Verif Require Import Base.Bytes Model.GoLite.
Local Open Scope N_scope.

Definition pk34 : bytes := [80;75;3;4].
Definition two32 : N := 4294967296.

Section ZipContains.
  Variable skip_files : list bytes.

  (* the four further hops: advance(0x1A); Index(b, pk); advance(idx+0x1E); HasPrefix *)
  Fixpoint zip_hops (k : nat) (sig cur : bytes) : bool :=
    match k with
    | O => false
    | S k' =>
      if (length cur <? 26)%nat then false else
      let c1 := skipn 26 cur in
      match index_of pk34 c1 with
      | None => false
      | Some nh =>
        if (length c1 <? nh + 30)%nat then false else
        let c2 := skipn (nh + 30) c1 in
        if has_prefix sig c2 then true else zip_hops k' sig c2
      end
    end.

  Definition zip_contains (raw sig : bytes) (mso : bool) : bool :=
    if (length raw <? 30)%nat then false else
    let b0 := skipn 30 raw in
    if has_prefix sig b0 then true else
    if mso && negb (existsb (fun sf => has_prefix sf b0) skip_files) then false else
    let so := (u32le (skipn 18 raw) + 49) mod two32 in
    if N.of_nat (length b0) <? so then false else
    let son := N.to_nat so in
    let b1 := skipn son b0 in
    match index_of pk34 (skipn son raw) with
    | None => false
    | Some nh =>
      if (length b1 <? nh)%nat then false else
      let b2 := skipn nh b1 in
      if has_prefix sig b2 then true else zip_hops 4 sig b2
    end.
End ZipContains.

Definition zip_bexp : bexp :=
  b_and [BLen CGt 3; BByte 0 CEq 80; BByte 1 CEq 75;
         b_or [BByte 2 CEq 3; BByte 2 CEq 5; BByte 2 CEq 7];
         b_or [BByte 3 CEq 4; BByte 3 CEq 6; BByte 3 CEq 8]].
Definition zip_simple (raw : bytes) : bool :=
  match evalb zip_bexp raw with Val v => v | Panic => false end.

Definition crx_det (raw : bytes) : bool :=
  if (length raw <? 16)%nat || negb (has_prefix [67;114;50;52] raw) then false else
  let pkl := u32le (skipn 8 raw) in
  let sgl := u32le (skipn 12 raw) in
  let zo := (16 + pkl + sgl) mod two32 in
  if (N.of_nat (length raw) mod two32) <? zo then false else
  zip_simple (skipn (N.to_nat zo) raw).
