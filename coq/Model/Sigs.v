(* The combinators of internal/magic/magic.go that are not in the GoLite fragment
   (they loop over the input): ciPrefix, markup, xml, shebang, and their helpers. *)
From Verif Require Import Base.Bytes.
Local Open Scope N_scope.

Definition is_ws (c : byte) : bool :=
  (c =? 9) || (c =? 10) || (c =? 12) || (c =? 13) || (c =? 32).

Fixpoint trim_lws (l : bytes) : bytes :=
  match l with c :: l' => if is_ws c then trim_lws l' else l | [] => [] end.

(* trimRWS never removes index 0 (loop condition lastNonWS > 0) *)
Definition trim_rws (l : bytes) : bytes :=
  match l with
  | [] => []
  | c :: t => c :: rev (trim_lws (rev t))
  end.

Fixpoint first_line (l : bytes) : bytes :=
  match l with c :: l' => if c =? 10 then [] else c :: first_line l' | [] => [] end.

Definition is_upper (c : byte) : bool := (65 <=? c) && (c <=? 90).

(* the shared loop of ciCheck / markupCheck: sig byte s against raw byte r *)
Definition ci_byte (s r : byte) : bool :=
  N.eqb s (if is_upper s then N.land r 223 else r).

Fixpoint ci_match (sig raw : bytes) {struct sig} : bool :=
  match sig, raw with
  | [], _ => true
  | s :: sig', r :: raw' => ci_byte s r && ci_match sig' raw'
  | _ :: _, [] => false
  end.

(* ciCheck: len(raw) < len(sig)+1 -> false *)
Definition ci_check (sig raw : bytes) : bool :=
  (Nat.ltb (length sig) (length raw)) && ci_match sig raw.
Definition ci_prefix (sigs : list bytes) (raw : bytes) : bool := existsb (fun s => ci_check s raw) sigs.

Definition markup_check (sig raw : bytes) : bool :=
  (Nat.ltb (length sig) (length raw)) && ci_match sig raw &&
  (let d := nth (length sig) raw 0 in (d =? 32) || (d =? 62)).
Definition markup (sigs : list bytes) (raw : bytes) : bool :=
  let r := if has_prefix [239; 187; 191] raw then trim_lws (skipn 3 raw) else trim_lws raw in
  match r with
  | [] => false
  | _ => existsb (fun s => markup_check s r) sigs
  end.

(* bytes.Index(raw, x) > 0 *)
Definition index_pos (needle hay : bytes) : bool :=
  match index_of needle hay with Some (S _) => true | _ => false end.

Definition xml_check (sig : bytes * bytes) (raw : bytes) : bool :=
  let (local, xmlns) := sig in
  let r := firstn 512 raw in
  match local, xmlns with
  | [], _ => index_pos xmlns r
  | _, [] => index_pos local r
  | _, _ => match index_of local r, index_of xmlns r with
            | Some i, Some j => Nat.ltb i j
            | _, _ => false
            end
  end.
Definition xml_det (sigs : list (bytes * bytes)) (raw : bytes) : bool :=
  match trim_lws raw with
  | [] => false
  | r => existsb (fun s => xml_check s r) sigs
  end.

Definition shebang_check (sig line : bytes) : bool :=
  (Nat.leb (length sig + 2) (length line)) &&
  match line with
  | 35 :: 33 :: rest => beq (trim_lws (trim_rws rest)) sig
  | _ => false
  end.
Definition shebang (sigs : list bytes) (raw : bytes) : bool :=
  let l := first_line raw in existsb (fun s => shebang_check s l) sigs.
