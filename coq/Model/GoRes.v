(* Prelude of the second translator (harness/gores.go -> Gen/SrcFuncs.v): the Go operations the offset-computing
   detectors use, as partial functions in the res monad.  Every Go integer is a Z; uint32 and uint8 arithmetic
   is wrapped explicitly by the translator (u32, u8w), `int` / `int64` arithmetic is exact (64-bit int: every int
   value in these functions derives from a length or a 32-bit field, cf. DESIGN 8).  Index and slice
   expressions carry Go's run-time check, with the bound len (stricter than Go's cap), exactly as Base.Bytes
   does for the hand-written transliterations. *)
From Verif Require Import Base.Bytes.
Local Open Scope Z_scope.

Notation "x <- e ;; k" := (rbind e (fun x => k)) (at level 61, e at next level, right associativity).

Definition zlen (x : bytes) : Z := Z.of_nat (length x).

(* x[i] *)
Definition zget (x : bytes) (i : Z) : res Z :=
  if (i <? 0) || (zlen x <=? i) then Panic else Val (Z.of_N (nthb x (Z.to_nat i))).
(* x[lo:] *)
Definition zfrom (x : bytes) (lo : Z) : res bytes :=
  if (lo <? 0) || (zlen x <? lo) then Panic else Val (skipn (Z.to_nat lo) x).
(* x[:hi] *)
Definition zto (x : bytes) (hi : Z) : res bytes :=
  if (hi <? 0) || (zlen x <? hi) then Panic else Val (firstn (Z.to_nat hi) x).
(* x[lo:hi] *)
Definition zslice (x : bytes) (lo hi : Z) : res bytes :=
  if (lo <? 0) || (hi <? lo) || (zlen x <? hi) then Panic
  else Val (firstn (Z.to_nat (hi - lo)) (skipn (Z.to_nat lo) x)).

(* binary.LittleEndian.Uint32(x) / BigEndian: panic when fewer than 4 bytes *)
Definition zu32le (x : bytes) : res Z := if zlen x <? 4 then Panic else Val (Z.of_N (u32le x)).
Definition zu32be (x : bytes) : res Z := if zlen x <? 4 then Panic else Val (Z.of_N (u32be x)).
Definition zu16be (x : bytes) : res Z := if zlen x <? 2 then Panic else Val (Z.of_N (u16be x)).

Definition u32 (z : Z) : Z := z mod 4294967296.
Definition u8w (z : Z) : Z := z mod 256.
(* int8(c) of a byte value *)
Definition i8 (z : Z) : Z := if u8w z <? 128 then u8w z else u8w z - 256.

(* bytes.Index(hay, needle) *)
Definition zindex (hay needle : bytes) : Z :=
  match index_of needle hay with Some i => Z.of_nat i | None => -1 end.

(* readBuf.advance(n): the buffer becomes buf[n:] unless n < 0 || len(buf) < n, in which case it is left alone *)
Definition zadvance (cur : bytes) (n : Z) : option bytes :=
  if (n <? 0) || (zlen cur <? n) then None else Some (skipn (Z.to_nat n) cur).

(* bytes.Trim(b, cutset) *)
Fixpoint drop_set (cut l : bytes) : bytes :=
  match l with c :: l' => if existsb (N.eqb c) cut then drop_set cut l' else l | [] => [] end.
Definition ztrim (l cut : bytes) : bytes := rev (drop_set cut (rev (drop_set cut l))).

(* for i, c := range x { body }: a fold with the index; the body may stop the loop (Break with the state) or
   leave the function (Panic is propagated by the monad; an early `return v` is Return v) *)
Inductive step (S R : Type) := Next (s : S) | Break (s : S) | Return (r : R).
Arguments Next {S R} s. Arguments Break {S R} s. Arguments Return {S R} r.

Inductive loop_out (S R : Type) := Done (s : S) | Returned (r : R).
Arguments Done {S R} s. Arguments Returned {S R} r.

Fixpoint range_loop {S R} (body : Z -> Z -> S -> res (step S R)) (i : Z) (x : bytes) (s : S) : res (loop_out S R) :=
  match x with
  | [] => Val (Done s)
  | c :: x' =>
    r <- body i (Z.of_N c) s ;;
    match r with
    | Next s' => range_loop body (i + 1) x' s'
    | Break s' => Val (Done s')
    | Return v => Val (Returned v)
    end
  end.

(* for cond(s) { s = body(s) } with explicit fuel; running out of fuel is reported as None and excluded by theorem *)
Fixpoint while_loop {S} (fuel : nat) (cond : S -> bool) (body : S -> S) (s : S) : option S :=
  if cond s then match fuel with O => None | S f => while_loop f cond body (body s) end else Some s.

(* for _, s := range LIST { body } over a list of byte strings or of (localName, xmlns) pairs *)
Fixpoint list_loop {E S R} (body : E -> S -> res (step S R)) (l : list E) (s : S) : res (loop_out S R) :=
  match l with
  | [] => Val (Done s)
  | x :: l' =>
    r <- body x s ;;
    match r with
    | Next s' => list_loop body l' s'
    | Break s' => Val (Done s')
    | Return v => Val (Returned v)
    end
  end.

(* for ; cond(s); { s = body(s) } where condition and body may index the input; fuel exhaustion is Panic *)
Fixpoint while_res {S} (fuel : nat) (cond : S -> res bool) (body : S -> res S) (s : S) : res S :=
  c <- cond s ;;
  if c then match fuel with O => Panic | S f => s' <- body s ;; while_res f cond body s' end else Val s.
