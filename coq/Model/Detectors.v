(* Hand-written GoLite terms for the loop-free function detectors of internal/magic.
   Each is tied to the Go function of the same name by the `det` correspondence channel. *)
From Verif Require Import Base.Bytes Model.Types Model.GoLite.
Local Open Scope N_scope.
Local Open Scope string_scope.

(* if c { return e }; rest *)
Definition PIfRetE (c e : bexp) (rest : prog) : prog :=
  PIfRet (BAnd c e) true (PIfRet c false rest).

Definition fat : bexp := BAnd (BLen CGe 8) (BU32 BE 0 CEq 3405691582).   (* classOrMachOFat *)
Definition ace : bexp := BAnd (BLen CGt 4) (BPrefixAt 4 (b "Standard ACE DB")).
Definition mdb : bexp := BAnd (BLen CGt 4) (BPrefixAt 4 (b "Standard Jet DB")).
Definition elf_t (k : N) : prog :=
  PRet (BAnd (BLen CGt 17) (BOr (BAnd (BByte 16 CEq k) (BByte 17 CEq 0)) (BAnd (BByte 16 CEq 0) (BByte 17 CEq k)))).
Definition riff_t (n : nat) (hi : nat) (tag : bytes) : prog :=
  PRet (BAnd (BLen CGt n) (BAnd (BEqualSlice 0 4 (b "RIFF")) (BEqualSlice 8 hi tag))).
Definition digit_bad (i : nat) : bexp := BOr (BByte i CLt 48) (BByte i CGt 57).

Definition func_terms : list (string * prog) := [
  ("InstallShieldCab", PRet (b_and [BLen CGt 7; BEqualSlice 0 4 (b "ISc("); BByte 6 CEq 0;
                                    b_or [BByte 7 CEq 1; BByte 7 CEq 2; BByte 7 CEq 4]]));
  ("Zstd", PIfRet (BLen CLt 4) false
            (PRet (BOr (BAnd (BU32 LE 0 CGe 4247762210) (BU32 LE 0 CLe 4247762216))
                       (BAnd (BU32 LE 0 CGe 407710288) (BU32 LE 0 CLe 407710303)))));
  ("Mp3", PIfRet (BLen CLt 3) false (PIfRet (BPrefixAt 0 (b "ID3")) true
            (PRet (b_or [BU16 BE 0 CEq 65530; BU16 BE 0 CEq 65531; BU16 BE 0 CEq 65522;
                         BU16 BE 0 CEq 65523; BU16 BE 0 CEq 65506; BU16 BE 0 CEq 65507]))));
  ("Wav", riff_t 12 12 [87;65;86;69]);
  ("Aiff", PRet (BAnd (BLen CGt 12) (BAnd (BEqualSlice 0 4 [70;79;82;77]) (BEqualSlice 8 12 [65;73;70;70]))));
  ("Qcp", riff_t 12 12 (b "QLCM"));
  ("Class", PRet (BAnd fat (BByte 7 CGt 30)));
  ("MachO", PIfRet (BAnd fat (BByte 7 CLt 20)) true (PIfRet (BLen CLt 4) false
            (PRet (b_or [BU32 BE 0 CEq 4277009102; BU32 LE 0 CEq 4277009102;
                         BU32 BE 0 CEq 4277009103; BU32 LE 0 CEq 4277009103]))));
  ("Dbf", PIfRet (BLen CLt 68) false
          (PIfRet (b_or [BByte 2 CEq 0; BByte 2 CGt 12; BByte 3 CEq 0; BByte 3 CGt 31]) false
          (PIfRet (b_or [BByte 12 CNe 0; BByte 13 CNe 0; BByte 30 CNe 0; BByte 31 CNe 0]) false
          (PIfRet (BByte 28 CGt 1) false
          (PRet (b_or (map (fun v => BByte 0 CEq v)
             [2;3;4;5;48;49;50;66;98;123;130;131;135;138;139;142;179;203;229;245;244;251])))))));
  ("ElfObj", elf_t 1); ("ElfExe", elf_t 2); ("ElfLib", elf_t 3); ("ElfDump", elf_t 4);
  ("Dcm", PRet (BAnd (BLen CGt 131) (BEqualSlice 128 132 [68;73;67;77])));
  ("Marc", PIfRet (BLen CLt 24) false (PIfRet (BNot (BEqualSlice 20 24 (b "4500"))) false
           (PIfRet (b_or [digit_bad 0; digit_bad 1; digit_bad 2; digit_bad 3; digit_bad 4]) false
           (PRet (BContainsWin 0 2048 [30])))));
  ("TzIf", PIfRet (BLen CLt 44) false (PIfRet (BNot (BPrefixAt 0 (b "TZif"))) false
           (PIfRet (BU32 BE 36 CEq 0) false
           (PRet (b_or [BByte 4 CEq 0; BByte 4 CEq 50; BByte 4 CEq 51])))));
  ("DjVu", PIfRet (BLen CLt 12) false (PIfRet (BNot (BPrefixAt 0 [65;84;38;84;70;79;82;77])) false
           (PRet (b_or [BPrefixAt 12 (b "DJVM"); BPrefixAt 12 (b "DJVU"); BPrefixAt 12 (b "DJVI"); BPrefixAt 12 (b "THUM")]))));
  ("P7s", PIfRet (BPrefixAt 0 (b "-----BEGIN PKCS7")) true (PIfRet (BLen CLt 20) false
          (PRet (b_or (map (fun p : N * nat => BAnd (BPrefixAt 0 [48; fst p]) (BPrefixAt (snd p + 2) [6;9;42;134;72;134;247;13;1;7]))
                          [(128,0%nat);(129,1%nat);(130,2%nat);(131,3%nat);(132,4%nat)])))));
  ("Ttf", PIfRet (BNot (BPrefixAt 0 [0;1;0;0])) false (PRet (BAnd (BNot ace) (BNot mdb))));
  ("Eot", PRet (b_and [BLen CGt 35; BEqualSlice 34 36 [76;80];
                       b_or [BEqualSlice 8 11 [2;0;1]; BEqualSlice 8 11 [1;0;0]; BEqualSlice 8 11 [2;0;2]]]));
  ("Ttc", PRet (b_and [BLen CGt 7; BPrefixAt 0 (b "ttcf");
                       BOr (BEqualSlice 4 8 [0;1;0;0]) (BEqualSlice 4 8 [0;2;0;0])]));
  ("QuickTime", PIfRet (BLen CLt 12) false
     (PIfRetE (BOr (BEqualSlice 4 12 (b "ftypqt  ")) (BEqualSlice 4 12 (b "ftypmoov"))) (BByte 0 CEq 0)
     (PIfRet (b_or (map (fun a : bytes => BEqualSlice 4 9 (a ++ [0])%list) [b "moov"; b "mdat"; b "free"; b "skip"; b "pnot"])) true
     (PRet (BEqualSlice 0 8 ([0;0;0;8] ++ b "wide")%list)))));
  ("Mp4", PIfRet (BLen CLt 12) false (PIfRet (BByte 0 CNe 0) false (PRet (BEqualSlice 4 8 (b "ftyp")))));
  ("Shp", PIfRet (BLen CLt 112) false
     (PIfRet (b_or [BU32 BE 0 CNe 9994; BU32 BE 4 CNe 0; BU32 BE 8 CNe 0; BU32 BE 12 CNe 0;
                    BU32 BE 16 CNe 0; BU32 BE 20 CNe 0; BU32 LE 28 CNe 1000]) false
     (PRet (b_or (map (fun v => BU32 LE 108 CEq v) [0;1;3;5;8;11;13;15;18;21;23;25;28;31])))));
  ("Shx", PRet (BPrefixAt 0 [0;0;39;10]));
  ("Webp", riff_t 12 12 [87;69;66;80]);
  ("Dwg", PIfRet (b_or [BLen CLt 6; BByte 0 CNe 65; BByte 1 CNe 67]) false
     (PRet (b_or (map (BEqualSlice 2 6)
        [b "1.40"; b "1.50"; b "2.10"; b "1002"; b "1003"; b "1004"; b "1006"; b "1009"; b "1012";
         b "1014"; b "1015"; b "1018"; b "1021"; b "1024"; b "1032"]))));
  ("Jxl", PRet (BOr (BPrefixAt 0 [255;10]) (BPrefixAt 0 ([0;0;0;12] ++ b "JXL " ++ [13;10;135;10])%list)));
  ("Ole", PRet (BPrefixAt 0 [208;207;17;224;161;177;26;225]));
  ("Aaf", PIfRet (BLen CLt 31) false
     (PRet (BAnd (BPrefixAt 8 [65;65;70;66;13;0;79;77]) (BOr (BByte 30 CEq 9) (BByte 30 CEq 12)))));
  ("Ogg", PRet (BPrefixAt 0 [79;103;103;83;0]));
  ("OggAudio", PRet (BAnd (BLen CGe 37)
     (b_or [BPrefixAt 28 (127 :: b "FLAC"); BPrefixAt 28 (1 :: b "vorbis"); BPrefixAt 28 (b "OpusHead"); BPrefixAt 28 (b "Speex   ")])));
  ("OggVideo", PRet (BAnd (BLen CGe 37)
     (b_or [BPrefixAt 28 (128 :: b "theora"); BPrefixAt 28 (b "fishead" ++ [0])%list; BPrefixAt 28 (1 :: b "video" ++ [0;0;0])%list])));
  ("Mpeg", PRet (b_and [BLen CGt 3; BPrefixAt 0 [0;0;1]; BByte 3 CGe 176; BByte 3 CLe 191]));
  ("Avi", riff_t 16 16 (b "AVI LIST"));
  ("Zip", PRet (b_and [BLen CGt 3; BByte 0 CEq 80; BByte 1 CEq 75;
                       b_or [BByte 2 CEq 3; BByte 2 CEq 5; BByte 2 CEq 7];
                       b_or [BByte 3 CEq 4; BByte 3 CEq 6; BByte 3 CEq 8]]));
  ("Vtt", PIfRet (b_or (map (fun p => BPrefixAt 0 p)
            (map (fun c : N => [239;187;191] ++ b "WEBVTT" ++ [c]) [10;13;32;9] ++ map (fun c : N => b "WEBVTT" ++ [c]) [10;13;32;9])%list)) true
          (PRet (BOr (BAnd (BLen CEq 9) (BPrefixAt 0 ([239;187;191] ++ b "WEBVTT")%list))
                     (BAnd (BLen CEq 6) (BPrefixAt 0 (b "WEBVTT"))))))
].

(* Detectors outside the GoLite fragment whose Go body is a single call of a same-package helper.  The model
   (Model/Detect.hand_models) dispatches each of them to its model of that helper with the arguments below; the
   translator reads the same shape off the current source (Gen/FuncTerms.gen_call_shapes) and
   Proofs/TranslateP.call_shapes_agree compares the two. *)
Definition model_call_shapes : list (string * list string) := [
  ("JSON", ["jsonHelper"; "raw"; "limit"; "json.QueryNone"; "json.TokObject | json.TokArray"]);
  ("GeoJSON", ["jsonHelper"; "raw"; "limit"; "json.QueryGeo"; "json.TokObject"]);
  ("HAR", ["jsonHelper"; "raw"; "limit"; "json.QueryHAR"; "json.TokObject"]);
  ("GLTF", ["jsonHelper"; "raw"; "limit"; "json.QueryGLTF"; "json.TokObject"]);
  ("Csv", ["sv"; "raw"; "','"; "limit"]);
  ("Tsv", ["sv"; "raw"; "'\\t'"; "limit"]);
  ("Docx", ["zipContains"; "raw"; "[]byte('word/')"; "true"]);
  ("Xlsx", ["zipContains"; "raw"; "[]byte('xl/')"; "true"]);
  ("Pptx", ["zipContains"; "raw"; "[]byte('ppt/')"; "true"]);
  ("Jar", ["zipContains"; "raw"; "[]byte('META-INF/MANIFEST.MF')"; "false"]);
  ("Mkv", ["isMatroskaFileTypeMatched"; "raw"; "'matroska'"]);
  ("WebM", ["isMatroskaFileTypeMatched"; "raw"; "'webm'"])
].
