(* charset.FromPlain / latin / ascii and the utf8 helpers it uses. *)
From Verif Require Import Base.Bytes Model.Text.
Local Open Scope N_scope.

(* unicode/utf8: transliteration of the acceptance ranges of utf8.Valid (Unicode Table 3-7) *)
Definition cont (c : byte) : bool := (128 <=? c) && (c <=? 191).
Fixpoint utf8_valid (l : bytes) {struct l} : bool :=
  match l with
  | [] => true
  | c :: l1 =>
    if c <? 128 then utf8_valid l1
    else if (194 <=? c) && (c <=? 223) then
      match l1 with c1 :: l2 => cont c1 && utf8_valid l2 | _ => false end
    else if (224 <=? c) && (c <=? 239) then
      match l1 with
      | c1 :: c2 :: l3 =>
        (if c =? 224 then (160 <=? c1) && (c1 <=? 191)
         else if c =? 237 then (128 <=? c1) && (c1 <=? 159) else cont c1) && cont c2 && utf8_valid l3
      | _ => false end
    else if (240 <=? c) && (c <=? 244) then
      match l1 with
      | c1 :: c2 :: c3 :: l4 =>
        (if c =? 240 then (144 <=? c1) && (c1 <=? 191)
         else if c =? 244 then (128 <=? c1) && (c1 <=? 143) else cont c1) && cont c2 && cont c3 && utf8_valid l4
      | _ => false end
    else false
  end.

(* utf8.RuneStart: not a continuation byte *)
Definition rune_start (c : byte) : bool := negb ((128 <=? c) && (c <=? 191)).

(* utf8.FullRune(p): p begins with a full encoding of a rune (an invalid encoding counts as a
   full rune of width 1) *)
Definition full_rune (p : bytes) : bool :=
  match p with
  | [] => false
  | c :: l1 =>
    if c <? 128 then true
    else if (c <? 194) || (244 <? c) then true              (* invalid lead: width-1 error *)
    else
      let need := if c <? 224 then 1%nat else if c <? 240 then 2%nat else 3%nat in
      let lo1 := if c =? 224 then 160 else if c =? 240 then 144 else 128 in
      let hi1 := if c =? 237 then 159 else if c =? 244 then 143 else 191 in
      match l1 with
      | [] => false
      | c1 :: l2 =>
        if negb ((lo1 <=? c1) && (c1 <=? hi1)) then true    (* bad second byte: error, full *)
        else match need, l2 with
             | 1%nat, _ => true
             | _, [] => false
             | 2%nat, c2 :: _ => true
             | _, c2 :: l3 => if negb (cont c2) then true else
                              match l3 with [] => false | _ => true end
             end
      end
  end.

Section Plain.
  Variable boms : list (bytes * bytes).
  Variable text_chars : list N.
  Variable cT cI : N.

  Definition tc (c : byte) : N := nth (N.to_nat c) text_chars 0.

  (* the partial-rune trimmer: examine the last up-to-3 bytes from the end; stop at an ASCII byte;
     cut at the first rune-start byte found.  revl = rev content; j = bytes already skipped *)
  Fixpoint trim_cut (revl : bytes) (j : nat) (fuel : nat) : option nat :=
    match fuel, revl with
    | O, _ => None
    | _, [] => None
    | S f, c :: r => if c <? 128 then None
                     else if rune_start c then Some (S j)
                     else trim_cut r (S j) f
    end.

  (* variant = false: the pinned code (cuts whenever a rune-start is found);
     variant = true: repaired (cuts only when the tail from that byte is not a full rune) *)
  Definition trim_partial (repaired : bool) (content : bytes) : bytes :=
    match trim_cut (rev content) 0 3 with
    | Some k => let i := (length content - k)%nat in
                if repaired && full_rune (skipn i content) then content else firstn i content
    | None => content
    end.

  Definition latin (content : bytes) : bytes :=
    if forallb (fun c => (tc c =? cT) || (tc c =? cI)) content then
      if existsb (fun c => (128 <=? c) && (c <=? 159)) content then b "windows-1252" else b "iso-8859-1"
    else [].

  Definition ascii (repaired : bool) (content : bytes) : bool :=
    forallb (fun c => (tc c =? cT) && (negb repaired || (c <? 128))) content.

  Definition from_plain (repaired : bool) (content : bytes) : bytes :=
    match content with
    | [] => []
    | _ =>
      match from_bom boms content with
      | (_ :: _) as cs => cs
      | [] =>
        let c' := trim_partial repaired content in
        if existsb (fun c => 128 <=? c) c' && utf8_valid c' then b "utf-8"
        else if ascii repaired content then b "utf-8"
        else latin content
      end
    end.
End Plain.
