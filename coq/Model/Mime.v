(* MIME.Is / EqualsAny / Lookup on names; the decoration of a result with a charset parameter. *)
From Verif Require Import Base.Bytes Model.Types Model.Tree.
Local Open Scope N_scope.

(* Is(expected) given norm = first result of mime.ParseMediaType(expected) and found = the same for m.mime *)
Definition is_model (found : bytes) (aliases : list bytes) (norm : bytes) : bool :=
  beq norm found || existsb (fun a => beq a norm) aliases.

Definition equals_any_model (norm_s : bytes) (norms : list bytes) : bool := existsb (beq norm_s) norms.

(* lookup builds its candidate list as aliases followed by the type *)
Definition names_of (n : node) : list bytes := n_aliases n ++ [n_mime n].

(* RFC 2045 token characters; a media type is token "/" token (lower case for registered names) *)
Definition token_char (c : byte) : bool :=
  (33 <=? c) && (c <=? 126) &&
  negb (existsb (N.eqb c) [40;41;60;62;64;44;59;58;92;34;47;91;93;63;61]).
Definition lower_token_char (c : byte) : bool := token_char c && negb ((65 <=? c) && (c <=? 90)).
Fixpoint split_slash (l acc : bytes) : option (bytes * bytes) :=
  match l with
  | [] => None
  | c :: l' => if c =? 47 then Some (rev acc, l') else split_slash l' (c :: acc)
  end.
Definition normal_media_type (s : bytes) : bool :=
  match split_slash s [] with
  | Some (t, sub) => negb (Nat.eqb (length t) 0) && negb (Nat.eqb (length sub) 0) && forallb lower_token_char t && forallb lower_token_char sub
  | None => false
  end.

Definition charset_types : list bytes := [b "text/plain"; b "text/html"; b "text/xml"].
