(* Shared types of the model: tree nodes, nested tree, detector descriptors. *)
From Verif Require Import Base.Bytes.

Record node := mk_node {
  n_id : nat; n_mime : bytes; n_ext : bytes; n_aliases : list bytes;
  n_parent : option nat; n_children : list nat; n_det : string; n_var : string }.

Inductive tree := T (id : nat) (cs : list tree).
Definition t_id (t : tree) : nat := match t with T i _ => i end.
Definition t_kids (t : tree) : list tree := match t with T _ cs => cs end.

(* detector descriptors: the eight combinators of internal/magic/magic.go with their literal
   arguments, and named function detectors *)
Inductive det :=
| DPrefix (sigs : list bytes)
| DOffset (sig : bytes) (off : nat)
| DCiPrefix (sigs : list bytes)
| DXml (sigs : list (bytes * bytes))      (* (localName incl. "<", xmlns) *)
| DMarkup (sigs : list bytes)
| DFtyp (sigs : list bytes)
| DShebang (sigs : list bytes)
| DJpeg2k (sig : bytes)
| DFunc (name : string).

Fixpoint assoc {A} (k : string) (l : list (string * A)) : option A :=
  match l with
  | [] => None
  | (k', v) :: l' => if String.eqb k k' then Some v else assoc k l'
  end.
