(* dropLastLine, scanLine, dropCR and magic.NdJSON. *)
From Verif Require Import Base.Bytes Model.Json.
Local Open Scope N_scope.

(* index of the last '\n' at index >= 1, scanning forward from index i *)
Fixpoint last_nl_from (l : bytes) (i : nat) (acc : option nat) : option nat :=
  match l with
  | [] => acc
  | c :: l' => last_nl_from l' (S i) (if (c =? 10) && negb (Nat.eqb i 0) then Some i else acc)
  end.

Definition drop_last_line (raw : bytes) (limit : N) : bytes :=
  if (limit =? 0) || ((N.of_nat (length raw)) mod 4294967296 <? limit) then raw else
  match last_nl_from raw 0 None with
  | Some i => firstn i raw
  | None => raw
  end.

Definition drop_cr (l : bytes) : bytes :=
  match rev l with
  | 13 :: r => rev r
  | _ => l
  end.

(* the lines the loop `for len(raw) != 0 { l, raw = scanLine(raw) }` visits; cur is reversed *)
Fixpoint split_nl (l cur : bytes) : list bytes :=
  match l with
  | [] => match cur with [] => [] | _ => [rev cur] end
  | c :: l' => if c =? 10 then rev cur :: split_nl l' [] else split_nl l' (c :: cur)
  end.
Definition scan_lines (raw : bytes) : list bytes := map drop_cr (split_nl raw []).

Section NdJson.
  Variable maxrec : nat.
  Variable tk : N * N * N * N * N * N * N.
  Variable use_parsed : bool.     (* repaired code compares `parsed`; the pinned code `inspected` *)

  Definition tk_arr : N := let '(_, _, _, _, _, a, _) := tk in a.
  Definition tk_obj : N := let '(_, _, _, _, _, _, o) := tk in o.

  (* returns None on the first bad line, else (lines, objOrArr) *)
  Fixpoint nd_loop (ls : list bytes) (cnt oa : nat) : option (nat * nat) :=
    match ls with
    | [] => Some (cnt, oa)
    | l :: ls' =>
      let r := parse maxrec tk [] l in
      let ok := if use_parsed
                then Nat.eqb (length l) (p_parsed r) || ((p_ftok r =? 0) && Nat.eqb (length l) (p_inspected r))
                else Nat.eqb (length l) (p_inspected r) in
      if negb ok then None else
      nd_loop ls' (S cnt) (if (p_ftok r =? tk_arr) || (p_ftok r =? tk_obj) then S oa else oa)
    end.

  Definition ndjson (raw : bytes) (limit : N) : bool :=
    match nd_loop (scan_lines (drop_last_line raw limit)) 0 0 with
    | Some (cnt, oa) => Nat.ltb 1 cnt && Nat.ltb 0 oa
    | None => false
    end.
End NdJson.

(* ---- magic.Csv / magic.Tsv on the quote-free fragment of encoding/csv --------------------------------
   (LazyQuotes, Comment '#', FieldsPerRecord fixed by the first record, ReuseRecord).  Inputs containing a
   double quote are outside the model (None). *)
Section Csv.
  Variable sep : byte.

  (* raw lines as csv.Reader.readLine delivers them: split at '\n'; "\r\n" counts as "\n"; a final '\r' at
     end of input is dropped *)
  Definition csv_line (terminated : bool) (l : bytes) : bytes :=
    match rev l with
    | 13 :: r => rev r
    | _ => l
    end.
  Fixpoint csv_split (l cur : bytes) : list bytes :=      (* cur reversed *)
    match l with
    | [] => match cur with [] => [] | _ => [csv_line false (rev cur)] end
    | c :: l' => if c =? 10 then csv_line true (rev cur) :: csv_split l' [] else csv_split l' (c :: cur)
    end.
  Definition is_record (l : bytes) : bool :=
    match l with [] => false | c :: _ => negb (c =? 35) end.    (* empty lines and '#' comments are skipped *)
  Definition field_count (l : bytes) : nat := S (length (filter (N.eqb sep) l)).

  Definition csv_records (inp : bytes) : list nat := map field_count (filter is_record (csv_split inp [])).

  Definition sv_model (inp : bytes) (limit : N) : option bool :=
    if existsb (N.eqb 34) inp then None else
    match csv_records (drop_last_line inp limit) with
    | [] => Some false
    | n :: rest => Some (forallb (Nat.eqb n) rest && Nat.ltb 1 n && Nat.ltb 0 (length rest))
    end.
End Csv.
