(* dropLastLine, scanLine, dropCR and magic.NdJSON. *)
From Verif Require Import Base.Bytes Model.Json.
Local Open Scope N_scope.

(* index of the last '\n' at index >= 1, scanning forward from index i *)
Fixpoint last_nl_from (l : bytes) (i : nat) (acc : option nat) : option nat :=
  match l with
  | [] => acc
  | c :: l' => last_nl_from l' (S i) (if (c =? 10) && negb (Nat.eqb i 0) then Some i else acc)
  end.

Definition drop_last_line (raw : bytes) (limit : N) : bytes :=
  if (limit =? 0) || ((N.of_nat (length raw)) mod 4294967296 <? limit) then raw else
  match last_nl_from raw 0 None with
  | Some i => firstn i raw
  | None => raw
  end.

Definition drop_cr (l : bytes) : bytes :=
  match rev l with
  | 13 :: r => rev r
  | _ => l
  end.

(* the lines the loop `for len(raw) != 0 { l, raw = scanLine(raw) }` visits; cur is reversed *)
Fixpoint split_nl (l cur : bytes) : list bytes :=
  match l with
  | [] => match cur with [] => [] | _ => [rev cur] end
  | c :: l' => if c =? 10 then rev cur :: split_nl l' [] else split_nl l' (c :: cur)
  end.
Definition scan_lines (raw : bytes) : list bytes := map drop_cr (split_nl raw []).

Section NdJson.
  Variable maxrec : nat.
  Variable tk : N * N * N * N * N * N * N.
  Variable use_parsed : bool.     (* repaired code compares `parsed`; the pinned code `inspected` *)

  Definition tk_arr : N := let '(_, _, _, _, _, a, _) := tk in a.
  Definition tk_obj : N := let '(_, _, _, _, _, _, o) := tk in o.

  (* returns None on the first bad line, else (lines, objOrArr) *)
  Fixpoint nd_loop (ls : list bytes) (cnt oa : nat) : option (nat * nat) :=
    match ls with
    | [] => Some (cnt, oa)
    | l :: ls' =>
      let r := parse maxrec tk [] l in
      let ok := if use_parsed
                then Nat.eqb (length l) (p_parsed r) || ((p_ftok r =? 0) && Nat.eqb (length l) (p_inspected r))
                else Nat.eqb (length l) (p_inspected r) in
      if negb ok then None else
      nd_loop ls' (S cnt) (if (p_ftok r =? tk_arr) || (p_ftok r =? tk_obj) then S oa else oa)
    end.

  Definition ndjson (raw : bytes) (limit : N) : bool :=
    match nd_loop (scan_lines (drop_last_line raw limit)) 0 0 with
    | Some (cnt, oa) => Nat.ltb 1 cnt && Nat.ltb 0 oa
    | None => false
    end.
End NdJson.
