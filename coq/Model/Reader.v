(* DetectReader: io.ReadFull / io.ReadAll over a scripted reader.
   A reader holds the bytes it will deliver (rem) and a script of steps; each Read call executes one step.
   When the script is exhausted the reader behaves plainly (delivers what fits, EOF at the end). *)
From Verif Require Import Base.Bytes.
Local Open Scope nat_scope.

Inductive step :=
| Chunk (k : nat) (eof_with_data : bool)   (* deliver up to k bytes (k = 0: a zero-length read); when these are the
                                             last bytes and the flag is set, return them together with io.EOF *)
| Fail (e : nat).                          (* return (0, error e): e distinct from EOF / ErrUnexpectedEOF *)

Inductive rerr := RNil | REOF | RUnexpectedEOF | RErr (e : nat).

Record reader := mk_reader { rem : bytes; script : list step }.

(* one Read(p) call with len(p) = room: (delivered, error, reader') *)
Definition read1 (r : reader) (room : nat) : bytes * rerr * reader :=
  match script r with
  | Fail e :: sc => ([], RErr e, mk_reader (rem r) sc)
  | Chunk k ewd :: sc =>
    match rem r with
    | [] => ([], REOF, mk_reader [] sc)
    | _ =>
      let n := Nat.min k (Nat.min room (length (rem r))) in
      let d := firstn n (rem r) in
      let rest := skipn n (rem r) in
      (d, (if ewd && Nat.eqb n (length (rem r)) && negb (Nat.eqb n 0) then REOF else RNil), mk_reader rest sc)
    end
  | [] =>
    match rem r with
    | [] => ([], REOF, r)
    | _ =>
      let n := Nat.min room (length (rem r)) in
      (firstn n (rem r), RNil, mk_reader (skipn n (rem r)) [])
    end
  end.

(* io.ReadAtLeast(r, buf, min) with len(buf) = min = size (io.ReadFull): loop while n < min && err == nil *)
Fixpoint read_full_f (fuel : nat) (r : reader) (size : nat) (acc : bytes) : bytes * rerr * reader :=
  match fuel with
  | O => (acc, RNil, r)                      (* unreachable for fuel > script length + size (zero reads are finite) *)
  | S f =>
    if Nat.leb size (length acc) then (acc, RNil, r) else
    let '(d, e, r') := read1 r (size - length acc) in
    let acc' := acc ++ d in
    match e with
    | RNil => read_full_f f r' size acc'
    | _ =>
      if Nat.leb size (length acc') then (acc', RNil, r')
      else match e with
           | REOF => (acc', (match acc' with [] => REOF | _ => RUnexpectedEOF end), r')
           | _ => (acc', e, r')
           end
    end
  end.

(* io.ReadAll: read until an error; EOF is not an error; the buffer always has room (size is arbitrary > 0: bufsz) *)
Fixpoint read_all_f (fuel : nat) (r : reader) (bufsz : nat) (acc : bytes) : bytes * rerr * reader :=
  match fuel with
  | O => (acc, RNil, r)
  | S f =>
    let '(d, e, r') := read1 r (S bufsz) in
    let acc' := acc ++ d in
    match e with
    | RNil => read_all_f f r' bufsz acc'
    | REOF => (acc', RNil, r')
    | _ => (acc', e, r')
    end
  end.

Definition fuel_of (r : reader) : nat := S (length (script r) + length (rem r) + 1).

(* DetectReader's reading part: the header handed to match (None: errMIME is returned) and the error *)
Definition detect_reader_read (limit : N) (r : reader) : option bytes * rerr * reader :=
  if (limit =? 0)%N then
    let '(got, e, r') := read_all_f (fuel_of r) r 511 [] in
    match e with RNil => (Some got, RNil, r') | _ => (None, e, r') end
  else
    (* a buffer of `limit` bytes behaves like one of min(limit, len + 1) bytes: enough room to see the end *)
    let size := N.to_nat (N.min limit (N.of_nat (S (length (rem r))))) in
    let '(got, e, r') := read_full_f (fuel_of r) r size [] in
    match e with
    | RErr _ => (None, e, r')
    | _ => (Some got, RNil, r')
    end.

Definition reader_consumed (r r' : reader) : nat := length (rem r) - length (rem r').
