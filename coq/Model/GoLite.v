(* GoLite: a small deep embedding of the loop-free, length-guarded byte tests that make up most
   signature checks, with Go's evaluation order and a res/Panic semantics for index and slice
   expressions, plus one static analysis computing (a) lower bounds on len(raw) that make
   evaluation panic-free and (b) persistence of verdicts under extension of the header. *)
From Verif Require Import Base.Bytes.
Local Open Scope nat_scope.

Inductive cmp := CEq | CNe | CLt | CLe | CGt | CGe.
Definition cmpN (c : cmp) (a v : N) : bool :=
  match c with
  | CEq => N.eqb a v | CNe => negb (N.eqb a v) | CLt => N.ltb a v
  | CLe => N.leb a v | CGt => N.ltb v a | CGe => N.leb v a
  end.
Definition cmpnat (c : cmp) (a k : nat) : bool :=
  match c with
  | CEq => a =? k | CNe => negb (a =? k) | CLt => a <? k
  | CLe => a <=? k | CGt => k <? a | CGe => k <=? a
  end.

Inductive endian := BE | LE.

Inductive bexp :=
| BConst (v : bool)
| BLen (c : cmp) (k : nat)                        (* len(raw) c k *)
| BByte (i : nat) (c : cmp) (v : N)               (* raw[i] c v *)
| BPrefixAt (off : nat) (lit : bytes)             (* bytes.HasPrefix(raw[off:], lit) *)
| BEqualSlice (lo hi : nat) (lit : bytes)         (* bytes.Equal(raw[lo:hi], lit) *)
| BU16 (e : endian) (off : nat) (c : cmp) (v : N) (* binary.X.Uint16(raw[off:off+2]) c v *)
| BU32 (e : endian) (off : nat) (c : cmp) (v : N) (* binary.X.Uint32(raw[off:off+4]) c v *)
| BContainsWin (lo cap : nat) (lit : bytes)       (* bytes.Contains(raw[lo:min(cap,len(raw))], lit) *)
| BNot (a : bexp) | BAnd (a c : bexp) | BOr (a c : bexp).

Inductive prog :=
| PRet (e : bexp)
| PIfRet (c : bexp) (v : bool) (rest : prog).     (* if c { return v }; rest *)

Definition rd16 (e : endian) (l : bytes) : N :=
  match e with BE => u16be l | LE => (nthb l 1 * 256 + nthb l 0)%N end.
Definition rd32 (e : endian) (l : bytes) : N :=
  match e with BE => u32be l | LE => u32le l end.

Fixpoint evalb (e : bexp) (raw : bytes) : res bool :=
  match e with
  | BConst v => Val v
  | BLen c k => Val (cmpnat c (length raw) k)
  | BByte i c v => match get raw i with Val x => Val (cmpN c x v) | Panic => Panic end
  | BPrefixAt off lit => match from raw off with Val r => Val (has_prefix lit r) | Panic => Panic end
  | BEqualSlice lo hi lit => match slice raw lo hi with Val r => Val (beq r lit) | Panic => Panic end
  | BU16 en off c v => match slice raw off (off + 2) with Val r => Val (cmpN c (rd16 en r) v) | Panic => Panic end
  | BU32 en off c v => match slice raw off (off + 4) with Val r => Val (cmpN c (rd32 en r) v) | Panic => Panic end
  | BContainsWin lo cap lit =>
      match slice raw lo (Nat.min cap (length raw)) with Val r => Val (contains lit r) | Panic => Panic end
  | BNot a => match evalb a raw with Val v => Val (negb v) | Panic => Panic end
  | BAnd a c => match evalb a raw with Val true => evalb c raw | Val false => Val false | Panic => Panic end
  | BOr a c => match evalb a raw with Val true => Val true | Val false => evalb c raw | Panic => Panic end
  end.

Fixpoint evalp (p : prog) (raw : bytes) : res bool :=
  match p with
  | PRet e => evalb e raw
  | PIfRet c v rest =>
      match evalb c raw with Val true => Val v | Val false => evalp rest raw | Panic => Panic end
  end.

(* a program as one expression: `if c { return true }; rest` is c || rest, `if c { return false }; rest` is !c && rest.
   The translator inlines multi-statement helper functions through it (evalb (inl p) = evalp p, Proofs/TranslateP.v). *)
Fixpoint inl (p : prog) : bexp :=
  match p with
  | PRet e => e
  | PIfRet c true rest => BOr c (inl rest)
  | PIfRet c false rest => BAnd (BNot c) (inl rest)
  end.

(* ---- static analysis ------------------------------------------------------------------------
   an lb e = Some (t, f, up, dn): for every raw with lb <= len raw, evaluation does not panic;
   when the value is true (false) then t (f) <= len raw; when up (dn) holds, a true (false)
   verdict persists under every extension raw ++ ext. *)
Record info := mk_info { i_t : nat; i_f : nat; i_up : bool; i_dn : bool }.

Definition an_len (c : cmp) (k lb : nat) : info :=
  match c with
  | CGe => mk_info (Nat.max lb k) lb true (k <=? lb)
  | CGt => mk_info (Nat.max lb (S k)) lb true (k <? lb)
  | CLt => mk_info lb (Nat.max lb k) (k <=? lb) true
  | CLe => mk_info lb (Nat.max lb (S k)) (k <? lb) true
  | CEq => mk_info (Nat.max lb k) lb (k <? lb) (k <? lb)
  | CNe => mk_info lb (Nat.max lb k) (k <? lb) (k <? lb)
  end.

Fixpoint an (lb : nat) (e : bexp) : option info :=
  match e with
  | BConst _ => Some (mk_info lb lb true true)
  | BLen c k => Some (an_len c k lb)
  | BByte i _ _ => if i <? lb then Some (mk_info lb lb true true) else None
  | BPrefixAt off lit =>
      if off <=? lb then Some (mk_info (Nat.max lb (off + length lit)) lb true (off + length lit <=? lb)) else None
  | BEqualSlice lo hi _ => if (lo <=? hi) && (hi <=? lb) then Some (mk_info lb lb true true) else None
  | BU16 _ off _ _ => if off + 2 <=? lb then Some (mk_info lb lb true true) else None
  | BU32 _ off _ _ => if off + 4 <=? lb then Some (mk_info lb lb true true) else None
  | BContainsWin lo cap _ =>
      if (lo <=? lb) && (lo <=? cap) then Some (mk_info lb lb true (cap <=? lb)) else None
  | BNot a => match an lb a with
              | Some i => Some (mk_info (i_f i) (i_t i) (i_dn i) (i_up i))
              | None => None end
  | BAnd a c => match an lb a with
                | Some ia => match an (i_t ia) c with
                             | Some ic => Some (mk_info (i_t ic) (Nat.min (i_f ia) (i_f ic))
                                                        (i_up ia && i_up ic) (i_dn ia && i_dn ic))
                             | None => None end
                | None => None end
  | BOr a c => match an lb a with
               | Some ia => match an (i_f ia) c with
                            | Some ic => Some (mk_info (Nat.min (i_t ia) (i_t ic)) (i_f ic)
                                                       (i_up ia && i_up ic) (i_dn ia && i_dn ic))
                            | None => None end
               | None => None end
  end.

(* anp lb p = Some up *)
Fixpoint anp (lb : nat) (p : prog) : option bool :=
  match p with
  | PRet e => match an lb e with Some i => Some (i_up i) | None => None end
  | PIfRet c v rest =>
      match an lb c with
      | Some ic => match anp (i_f ic) rest with
                   | Some ur => Some ((if v then i_up ic else i_dn ic) && ur)
                   | None => None end
      | None => None end
  end.

Definition safe (p : prog) : bool := match anp 0 p with Some _ => true | None => false end.
Definition mono (p : prog) : bool := match anp 0 p with Some u => u | None => false end.

(* helpers to build terms *)
Fixpoint b_or (l : list bexp) : bexp :=
  match l with [] => BConst false | [x] => x | x :: l' => BOr x (b_or l') end.
Fixpoint b_and (l : list bexp) : bexp :=
  match l with [] => BConst true | [x] => x | x :: l' => BAnd x (b_and l') end.

(* the four combinators that lie in the fragment *)
Definition prefix_term (sigs : list bytes) : prog := PRet (b_or (map (BPrefixAt 0) sigs)).
Definition offset_term (sig : bytes) (off : nat) : prog := PRet (BAnd (BLen CGt off) (BPrefixAt off sig)).
Definition ftyp_term (sigs : list bytes) : prog :=
  PIfRet (BLen CLt 12) false (PRet (b_or (map (BEqualSlice 8 12) sigs))).
Definition jpeg2k_term (sig : bytes) : prog :=
  PIfRet (BLen CLt 24) false
   (PIfRet (BAnd (BNot (BEqualSlice 4 8 [106;80;32;32]%N)) (BNot (BEqualSlice 4 8 [106;80;50;32]%N))) false
     (PRet (BEqualSlice 20 24 sig))).
