(* Bytes, byte strings and the partial slice operations of the Go code.
   Executable definitions only; lemmas live in Proofs/. *)
From Coq Require Export String Ascii.
From Coq Require Export List NArith ZArith Bool Arith Lia.
Export ListNotations.

(* notations, not definitions: terms mention only N and list N, so rewriting is never blocked by an alias *)
Notation byte := N (only parsing).
Notation bytes := (list N) (only parsing).

Definition byte_ok (c : byte) : bool := (c <? 256)%N.
Definition bytes_ok (l : bytes) : bool := forallb byte_ok l.

(* string literals: (b "abc") *)
Fixpoint b (s : string) : bytes :=
  match s with
  | EmptyString => []
  | String a s' => N_of_ascii a :: b s'
  end.

Fixpoint beq (x y : bytes) {struct x} : bool :=
  match x, y with
  | [], [] => true
  | a :: x', c :: y' => N.eqb a c && beq x' y'
  | _, _ => false
  end.

(* bytes.HasPrefix(raw, sig) *)
Fixpoint has_prefix (sig raw : bytes) {struct sig} : bool :=
  match sig, raw with
  | [], _ => true
  | s :: sig', r :: raw' => N.eqb s r && has_prefix sig' raw'
  | _ :: _, [] => false
  end.

(* bytes.Index(hay, needle): offset of the first occurrence *)
Fixpoint index_from (needle hay : bytes) (i : nat) {struct hay} : option nat :=
  if has_prefix needle hay then Some i else
  match hay with
  | [] => None
  | _ :: hay' => index_from needle hay' (S i)
  end.
Definition index_of (needle hay : bytes) : option nat := index_from needle hay 0.
Definition contains (needle hay : bytes) : bool :=
  match index_of needle hay with Some _ => true | None => false end.

Fixpoint index_byte_from (c : byte) (hay : bytes) (i : nat) : option nat :=
  match hay with
  | [] => None
  | x :: hay' => if N.eqb x c then Some i else index_byte_from c hay' (S i)
  end.
Definition index_byte c hay := index_byte_from c hay 0.

(* results of partial operations *)
Inductive res (A : Type) := Val (a : A) | Panic.
Arguments Val {A} a. Arguments Panic {A}.

Definition rbind {A B} (r : res A) (f : A -> res B) : res B :=
  match r with Val a => f a | Panic => Panic end.

(* raw[i] *)
Definition get (raw : bytes) (i : nat) : res byte :=
  match nth_error raw i with Some c => Val c | None => Panic end.
(* raw[lo:]  (bound: len, deliberately stricter than Go's cap) *)
Definition from (raw : bytes) (lo : nat) : res bytes :=
  if lo <=? length raw then Val (skipn lo raw) else Panic.
(* raw[lo:hi] *)
Definition slice (raw : bytes) (lo hi : nat) : res bytes :=
  if (lo <=? hi) && (hi <=? length raw) then Val (firstn (hi - lo) (skipn lo raw)) else Panic.

(* total versions used where a guard has been established *)
Definition nthb (raw : bytes) (i : nat) : byte := nth i raw 0%N.

(* big/little endian reads of the first bytes of a list *)
Definition u16be (l : bytes) : N := (nthb l 0 * 256 + nthb l 1)%N.
Definition u32be (l : bytes) : N :=
  (((nthb l 0 * 256 + nthb l 1) * 256 + nthb l 2) * 256 + nthb l 3)%N.
Definition u32le (l : bytes) : N :=
  (((nthb l 3 * 256 + nthb l 2) * 256 + nthb l 1) * 256 + nthb l 0)%N.

Definition is_prefix_of (p l : bytes) : Prop := exists t, l = p ++ t.

(* header examined at limit l (0 = unlimited): Detect's slicing *)
Fixpoint take (l : N) (x : bytes) {struct x} : bytes :=
  match x with
  | [] => []
  | c :: x' => if (l =? 0)%N then [] else c :: take (N.pred l) x'
  end.
Definition hdr (l : N) (x : bytes) : bytes :=
  if (l =? 0)%N then x else take l x.

Definition lower (c : byte) : byte := if ((65 <=? c) && (c <=? 90))%N then (c + 32)%N else c.
Definition lower_bytes (l : bytes) : bytes := map lower l.
