(* C08 specification side: RFC 8259 numbers and the documents the property promises to recognise.
   Structure (arrays, objects, strings, literals, white space) is that of the relaxed grammar; numbers are the
   strict RFC production [ minus ] int [ frac ] [ exp ]; values carry their nesting depth.
   (RFC 8259 documents are a subset: no trailing commas, strings without raw control bytes.) *)
From Verif Require Import Base.Bytes Model.Json Spec.JsonGrammar.
Local Open Scope N_scope.

Definition nonzero_digit (c : byte) : bool := (49 <=? c) && (c <=? 57).
Definition SInt (i : bytes) := i = [48] \/ exists d ds, i = d :: ds /\ nonzero_digit d = true /\ Digits ds.
Definition SFrac (f : bytes) := f = [] \/ exists ds, f = 46 :: ds /\ Digits ds /\ ds <> [].
Definition SNum (x : bytes) :=
  exists sg i f e, x = sg ++ i ++ f ++ e /\ opt 45 sg /\ SInt i /\ SFrac f /\ RExp e.

(* values with nesting depth: a scalar has depth 0, a container one more than its deepest member *)
Inductive SVal : nat -> bytes -> Prop :=
| SV_str body : RStr body -> SVal 0 (34 :: body)
| SV_num x : SNum x -> SVal 0 x
| SV_true : SVal 0 [116;114;117;101]
| SV_false : SVal 0 [102;97;108;115;101]
| SV_null : SVal 0 [110;117;108;108]
| SV_arr d t : SArrTail d t -> SVal (S d) (91 :: t)
| SV_obj d t : SObjTail d t -> SVal (S d) (123 :: t)
with SArrTail : nat -> bytes -> Prop :=
| SA_end d w : WS w -> SArrTail d (w ++ [93])
| SA_last d d1 w v w2 : WS w -> SVal d1 v -> (d1 <= d)%nat -> WS w2 -> SArrTail d (w ++ v ++ w2 ++ [93])
| SA_more d d1 w v w2 t : WS w -> SVal d1 v -> (d1 <= d)%nat -> WS w2 -> SArrTail d t -> SArrTail d (w ++ v ++ w2 ++ 44 :: t)
with SObjTail : nat -> bytes -> Prop :=
| SO_end d w : WS w -> SObjTail d (w ++ [125])
| SO_last d d1 w k w1 w2 v w3 : WS w -> RStr k -> WS w1 -> WS w2 -> SVal d1 v -> (d1 <= d)%nat -> WS w3 ->
    SObjTail d (w ++ 34 :: k ++ w1 ++ 58 :: w2 ++ v ++ w3 ++ [125])
| SO_more d d1 w k w1 w2 v w3 t : WS w -> RStr k -> WS w1 -> WS w2 -> SVal d1 v -> (d1 <= d)%nat -> WS w3 -> SObjTail d t ->
    SObjTail d (w ++ 34 :: k ++ w1 ++ 58 :: w2 ++ v ++ w3 ++ 44 :: t).

Scheme SVal_mind := Minimality for SVal Sort Prop
with SArrTail_mind := Minimality for SArrTail Sort Prop
with SObjTail_mind := Minimality for SObjTail Sort Prop.
Combined Scheme SVal_mutind from SVal_mind, SArrTail_mind, SObjTail_mind.

(* a JSON text: one array or object of depth d with white space around it *)
Definition SDoc (d : nat) (x : bytes) :=
  exists w v w2, x = w ++ v ++ w2 /\ WS w /\ WS w2 /\ SVal d v /\ (exists t, v = 91 :: t \/ v = 123 :: t).
