(* C10 specification side: which members of a JSON value satisfy a query table - an attribute grammar over
   Spec/JsonGrammar8259.v.  QVal qs P d v h: value v (nesting depth d), located at key path P (innermost key
   first, the array marker "[" for array elements), has query-hit status h.  The status of a member is
   "its path is a query path and its raw text is among the query's values (any text when none are listed)",
   the status of a container the disjunction over its members / elements - in any order, whatever the siblings
   hold, whatever the layout. *)
From Verif Require Import Base.Bytes Model.Json Spec.JsonGrammar Spec.JsonGrammar8259.
Local Open Scope N_scope.

Definition text_hit (q : query) (v : bytes) : bool :=
  match snd q with [] => true | vals => existsb (fun x => beq x v) vals end.
(* first query whose path is P (outermost key first in the table, hence the rev) *)
Definition direct (qs : list query) (P : list bytes) (v : bytes) : bool :=
  match query_path_match qs P with Some q => text_hit q v | None => false end.

Section Q.
  Variable qs : list query.

  Inductive QVal : list bytes -> nat -> bytes -> bool -> Prop :=
  | QV_str P body : RStr body -> QVal P 0 (34 :: body) false
  | QV_num P x : SNum x -> QVal P 0 x false
  | QV_true P : QVal P 0 [116;114;117;101] false
  | QV_false P : QVal P 0 [102;97;108;115;101] false
  | QV_null P : QVal P 0 [110;117;108;108] false
  | QV_arr P d t h : QArr ([91] :: P) d t h -> QVal P (S d) (91 :: t) h
  | QV_obj P d t h : QObj P d t h -> QVal P (S d) (123 :: t) h
  with QArr : list bytes -> nat -> bytes -> bool -> Prop :=
  | QA_end P d w : WS w -> QArr P d (w ++ [93]) false
  | QA_last P d d1 w v w2 h : WS w -> QVal P d1 v h -> (d1 <= d)%nat -> WS w2 -> QArr P d (w ++ v ++ w2 ++ [93]) h
  | QA_more P d d1 w v w2 t h1 h2 : WS w -> QVal P d1 v h1 -> (d1 <= d)%nat -> WS w2 -> QArr P d t h2 ->
      QArr P d (w ++ v ++ w2 ++ 44 :: t) (h1 || h2)
  with QObj : list bytes -> nat -> bytes -> bool -> Prop :=
  | QO_end P d w : WS w -> QObj P d (w ++ [125]) false
  | QO_last P d d1 w key w1 w2 v w3 h : WS w -> RStr (key ++ [34]) -> WS w1 -> WS w2 -> QVal (key :: P) d1 v h -> (d1 <= d)%nat -> WS w3 ->
      QObj P d (w ++ 34 :: (key ++ [34]) ++ w1 ++ 58 :: w2 ++ v ++ w3 ++ [125]) (direct qs (key :: P) v || h)
  | QO_more P d d1 w key w1 w2 v w3 t h h2 : WS w -> RStr (key ++ [34]) -> WS w1 -> WS w2 -> QVal (key :: P) d1 v h -> (d1 <= d)%nat -> WS w3 ->
      QObj P d t h2 ->
      QObj P d (w ++ 34 :: (key ++ [34]) ++ w1 ++ 58 :: w2 ++ v ++ w3 ++ 44 :: t) (direct qs (key :: P) v || h || h2).

  Scheme QVal_mind := Minimality for QVal Sort Prop
  with QArr_mind := Minimality for QArr Sort Prop
  with QObj_mind := Minimality for QObj Sort Prop.
  Combined Scheme QVal_mutind from QVal_mind, QArr_mind, QObj_mind.
End Q.

(* an object given as its list of members *)
Record member := mk_member { m_w : bytes; m_key : bytes; m_w1 : bytes; m_w2 : bytes; m_val : bytes; m_w3 : bytes; m_hit : bool }.
Fixpoint render_tail (endw : bytes) (ms : list member) : bytes :=
  match ms with
  | [] => endw ++ [125]
  | [m] => m_w m ++ 34 :: (m_key m ++ [34]) ++ m_w1 m ++ 58 :: m_w2 m ++ m_val m ++ m_w3 m ++ [125]
  | m :: ms' => m_w m ++ 34 :: (m_key m ++ [34]) ++ m_w1 m ++ 58 :: m_w2 m ++ m_val m ++ m_w3 m ++ 44 :: render_tail endw ms'
  end.
(* a member is well-formed at path P: layout is white space, the key a string, the value a value whose
   hit status (inside it) is m_hit *)
Definition member_ok (qs : list query) (P : list bytes) (d : nat) (m : member) : Prop :=
  WS (m_w m) /\ RStr (m_key m ++ [34]) /\ WS (m_w1 m) /\ WS (m_w2 m) /\ WS (m_w3 m) /\
  exists d1, (d1 <= d)%nat /\ QVal qs (m_key m :: P) d1 (m_val m) (m_hit m).
Definition member_status (qs : list query) (P : list bytes) (m : member) : bool :=
  direct qs (m_key m :: P) (m_val m) || m_hit m.
