(* C08 / C09 specification side: the relaxed JSON language (what C09 tolerates: liberal number
   spelling, raw control and high bytes inside strings, one trailing comma before a closing
   bracket), written right-recursively so that one production corresponds to one loop iteration
   of a recursive-descent scanner. The character classes are those of RFC 8259 (shared with the
   model: they are one-line definitions). *)
From Verif Require Import Base.Bytes Model.Json.
Local Open Scope N_scope.

Definition WS (w : bytes) := Forall (fun c => is_space c = true) w.
Definition Digits (d : bytes) := Forall (fun c => is_digit c = true) d.

(* string body after the opening quote, closing quote included *)
Inductive RStr : bytes -> Prop :=
| RS_end : RStr [34]
| RS_char c s : c <> 34 -> c <> 92 -> RStr s -> RStr (c :: s)
| RS_esc e s : simple_esc e = true -> RStr s -> RStr (92 :: e :: s)
| RS_uni h1 h2 h3 h4 s : is_xdigit h1 = true -> is_xdigit h2 = true -> is_xdigit h3 = true -> is_xdigit h4 = true ->
    RStr s -> RStr (92 :: 117 :: h1 :: h2 :: h3 :: h4 :: s).

Definition opt (c : byte) (x : bytes) := x = [] \/ x = [c].
Definition RExp (e : bytes) :=
  e = [] \/ exists m sg ds, e = m :: sg ++ ds /\ (m = 101 \/ m = 69) /\ (sg = [] \/ sg = [43] \/ sg = [45]) /\ Digits ds /\ ds <> [].
Definition RNum (x : bytes) :=
  exists sg i dot f e, x = sg ++ i ++ dot ++ f ++ e /\ opt 45 sg /\ Digits i /\ opt 46 dot /\ Digits f /\ (i ++ f <> []) /\ RExp e.

Inductive RVal : bytes -> Prop :=
| RV_str body : RStr body -> RVal (34 :: body)
| RV_num x : RNum x -> RVal x
| RV_true : RVal [116;114;117;101]
| RV_false : RVal [102;97;108;115;101]
| RV_null : RVal [110;117;108;108]
| RV_arr t : RArrTail t -> RVal (91 :: t)
| RV_obj t : RObjTail t -> RVal (123 :: t)
with RArrTail : bytes -> Prop :=
| RA_end w : WS w -> RArrTail (w ++ [93])
| RA_last w v w2 : WS w -> RVal v -> WS w2 -> RArrTail (w ++ v ++ w2 ++ [93])
| RA_more w v w2 t : WS w -> RVal v -> WS w2 -> RArrTail t -> RArrTail (w ++ v ++ w2 ++ 44 :: t)
with RObjTail : bytes -> Prop :=
| RO_end w : WS w -> RObjTail (w ++ [125])
| RO_last w k w1 w2 v w3 : WS w -> RStr k -> WS w1 -> WS w2 -> RVal v -> WS w3 ->
    RObjTail (w ++ 34 :: k ++ w1 ++ 58 :: w2 ++ v ++ w3 ++ [125])
| RO_more w k w1 w2 v w3 t : WS w -> RStr k -> WS w1 -> WS w2 -> RVal v -> WS w3 -> RObjTail t ->
    RObjTail (w ++ 34 :: k ++ w1 ++ 58 :: w2 ++ v ++ w3 ++ 44 :: t).

(* language consumed by each scanner entry *)
Definition AnyWS (x : bytes) := exists w v w2, x = w ++ v ++ w2 /\ WS w /\ RVal v /\ WS w2.
Definition Lang (w : which) : bytes -> Prop :=
  match w with WAny => AnyWS | WArr => RArrTail | WObj => RObjTail end.

(* a single structurally well-formed JSON object or array with nothing but whitespace around it *)
Definition RDoc (x : bytes) :=
  exists w v w2, x = w ++ v ++ w2 /\ WS w /\ WS w2 /\ RVal v /\ (exists t, v = 91 :: t \/ v = 123 :: t).

Definition Partial (L : bytes -> Prop) (b : bytes) := exists ext, L (b ++ ext).
