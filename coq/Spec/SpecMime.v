(* C02 specification side: what a detection result must look like. *)
From Verif Require Import Base.Bytes Model.Mime.
Local Open Scope N_scope.

Record relem := mk_relem {
  r_string : bytes;        (* String() *)
  r_ext : bytes;           (* Extension() *)
  r_parse_ok : bool;       (* mime.ParseMediaType accepted String() *)
  r_type : bytes;          (* its type/subtype *)
  r_params : list (bytes * bytes) }.

Definition registered (regs : list (bytes * bytes)) (t e : bytes) : bool :=
  existsb (fun p => beq (fst p) t && beq (snd p) e) regs.

(* [] when fine, else the reason *)
Definition c02_judge (regs : list (bytes * bytes)) (chain : list relem) (is_err : bool) : bytes :=
  match chain with
  | [] => b "empty result"
  | h :: parents =>
    if negb (r_parse_ok h) then b "String() is rejected by mime.ParseMediaType"
    else if negb (registered regs (r_type h) (r_ext h)) then b "type/subtype (with this extension) is not a registered format"
    else if negb (match r_params h with
                  | [] => true
                  | [(k, _)] => beq k (b "charset") && existsb (beq (r_type h)) charset_types
                  | _ => false end) then b "a parameter other than charset, or a charset on a type other than text/plain, text/html, text/xml"
    else if negb (forallb (fun p => r_parse_ok p && beq (r_string p) (r_type p) && registered regs (r_type p) (r_ext p) &&
                                      match r_params p with [] => true | _ => false end) parents)
      then b "an ancestor carries parameters or is not a registered format"
    else if negb (let l := last chain h in beq (r_string l) (b "application/octet-stream") && beq (r_ext l) [])
      then b "the Parent() chain does not end at application/octet-stream"
    else if is_err && negb (match parents with [] => beq (r_string h) (b "application/octet-stream") | _ => false end)
      then b "an error was returned but the value is not exactly application/octet-stream"
    else []
  end.
