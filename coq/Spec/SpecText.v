(* Hand-written specification constants for C07 / C11: the five Unicode byte-order marks in their
   order of precedence and the WHATWG binary data bytes.  Never generated. *)
From Verif Require Import Base.Bytes.
Local Open Scope N_scope.

Definition spec_boms : list (bytes * bytes) := [
  ([239;187;191], b "utf-8");
  ([0;0;254;255], b "utf-32be");
  ([255;254;0;0], b "utf-32le");
  ([254;255], b "utf-16be");
  ([255;254], b "utf-16le") ].

(* https://mimesniff.spec.whatwg.org/#binary-data-byte : 0x00-0x08, 0x0B, 0x0E-0x1A, 0x1C-0x1F *)
Definition binary_bytes : list N :=
  [0;1;2;3;4;5;6;7;8; 11; 14;15;16;17;18;19;20;21;22;23;24;25;26; 28;29;30;31].
Definition binary_byte (c : byte) : bool := existsb (N.eqb c) binary_bytes.

Definition has_bom (raw : bytes) : bool := existsb (fun bm => has_prefix (fst bm) raw) spec_boms.
Definition no_binary (raw : bytes) : bool := forallb (fun c => negb (binary_byte c)) raw.
Definition text_spec (raw : bytes) : bool := has_bom raw || no_binary raw.
