(* C10 specification constants: the deciding members of the three JSON sub-types, hand-written. *)
From Verif Require Import Base.Bytes Spec.JsonSubtype.
Definition spec_geo : list (list (list N) * list (list N)) := [([b "type"], map quoted geo_types)].
Definition spec_har : list (list (list N) * list (list N)) := map (fun m => ([b "log"; m], [])) har_members.
Definition spec_gltf : list (list (list N) * list (list N)) := [([b "asset"; b "version"], map quoted gltf_versions)].
