(* C10 specification side: which JSON sub-type the top-level members of an object call for.
   Hand-written constants (nine RFC 7946 type names, the HAR and glTF deciding members) and an
   independent member splitter built on the judge's tokenizers. *)
From Verif Require Import Base.Bytes Spec.JsonJudge.
Local Open Scope N_scope.

Definition geo_types : list bytes :=
  [b "Feature"; b "FeatureCollection"; b "Point"; b "LineString"; b "Polygon"; b "MultiPoint";
   b "MultiLineString"; b "MultiPolygon"; b "GeometryCollection"].
Definition har_members : list bytes := [b "version"; b "creator"; b "entries"].
Definition gltf_versions : list bytes := [b "1.0"; b "2.0"].

Definition quoted (s : bytes) : bytes := 34 :: s ++ [34].

(* text consumed between l and its suffix r *)
Definition consumed (l r : bytes) : bytes := firstn (length l - length r) l.

(* members of an object body (after the opening brace), as (raw key, raw value text), in order;
   stops silently at the first thing that is not a complete member (truncated tail) *)
Fixpoint members (fuel : nat) (l : bytes) : list (bytes * bytes) :=
  match fuel with
  | O => []
  | S f =>
    match j_ws l with
    | 34 :: l1 =>
      match j_str l1 with
      | JOk r =>
        let key := firstn (length l1 - length r - 1) l1 in
        match j_ws r with
        | 58 :: r1 =>
          let v0 := j_ws r1 in
          match j_val (S (S (length v0 + length v0))) v0 with
          | JOk r3 =>
            (key, consumed v0 r3) ::
            match j_ws r3 with
            | 44 :: r4 => members f r4
            | _ => []
            end
          | _ => []
          end
        | _ => []
        end
      | _ => []
      end
    | _ => []
    end
  end.

Definition top_members (x : bytes) : list (bytes * bytes) :=
  match j_ws x with
  | 123 :: body => members (S (length x)) body
  | _ => []
  end.

Definition obj_members (v : bytes) : list (bytes * bytes) :=
  match v with 123 :: body => members (S (length v)) body | _ => [] end.

Definition is_geo (x : bytes) : bool :=
  existsb (fun kv => beq (fst kv) (b "type") && existsb (fun t => beq (snd kv) (quoted t)) geo_types) (top_members x).
Definition is_har (x : bytes) : bool :=
  existsb (fun kv => beq (fst kv) (b "log") &&
                     existsb (fun kv2 => existsb (beq (fst kv2)) har_members) (obj_members (snd kv))) (top_members x).
Definition is_gltf (x : bytes) : bool :=
  existsb (fun kv => beq (fst kv) (b "asset") &&
                     existsb (fun kv2 => beq (fst kv2) (b "version") && existsb (fun t => beq (snd kv2) (quoted t)) gltf_versions)
                             (obj_members (snd kv))) (top_members x).

(* expected (mime, extension) of a JSON object *)
Definition subtype_spec (x : bytes) : bytes * bytes :=
  if is_geo x then (b "application/geo+json", b ".geojson")
  else if is_har x then (b "application/json", b ".har")
  else if is_gltf x then (b "model/gltf+json", b ".gltf")
  else (b "application/json", b ".json").
