(* An independent executable recogniser for the relaxed JSON language of C09, written from the
   grammar (Spec/JsonGrammar.v), with three outcomes so that it also decides "is a prefix of some
   document".  No byte accounting, no paths, no recursion cap.  Used as a third opinion by the
   correspondence driver; cross-checked exhaustively against the model. *)
From Verif Require Import Base.Bytes.
Local Open Scope N_scope.

Inductive jo := JOk (rest : bytes) | JBad | JEnd.   (* JEnd: input ended, still a viable prefix *)

Definition j_space (c : byte) : bool := (c =? 32) || (c =? 9) || (c =? 13) || (c =? 10).
Definition j_digit (c : byte) : bool := (48 <=? c) && (c <=? 57).
Definition j_hex (c : byte) : bool := j_digit c || ((97 <=? c) && (c <=? 102)) || ((65 <=? c) && (c <=? 70)).
Definition j_esc (c : byte) : bool :=
  (c =? 34) || (c =? 92) || (c =? 47) || (c =? 98) || (c =? 102) || (c =? 110) || (c =? 114) || (c =? 116).

Fixpoint j_ws (l : bytes) : bytes := match l with c :: l' => if j_space c then j_ws l' else l | [] => [] end.
Fixpoint j_digits (l : bytes) : bytes := match l with c :: l' => if j_digit c then j_digits l' else l | [] => [] end.

(* string body after the opening quote *)
Fixpoint j_str (l : bytes) : jo :=
  match l with
  | [] => JEnd
  | c :: l1 =>
    if c =? 34 then JOk l1
    else if c =? 92 then
      match l1 with
      | [] => JEnd
      | e :: l2 =>
        if j_esc e then j_str l2
        else if e =? 117 then
          match l2 with
          | [] => JEnd
          | h1 :: l3 => if negb (j_hex h1) then JBad else
            match l3 with
            | [] => JEnd
            | h2 :: l4 => if negb (j_hex h2) then JBad else
              match l4 with
              | [] => JEnd
              | h3 :: l5 => if negb (j_hex h3) then JBad else
                match l5 with
                | [] => JEnd
                | h4 :: l6 => if negb (j_hex h4) then JBad else j_str l6
                end
              end
            end
          end
        else JBad
      end
    else j_str l1
  end.

Fixpoint j_lit (lit l : bytes) : jo :=
  match lit with
  | [] => JOk l
  | c :: lit' => match l with
                 | [] => JEnd
                 | x :: l' => if x =? c then j_lit lit' l' else JBad
                 end
  end.

(* liberal number, greedy: -? D* .? D* with at least one digit, optional exponent with digits *)
Definition j_num (l : bytes) : jo :=
  let l1 := match l with c :: t => if c =? 45 then t else l | [] => l end in
  let l2 := j_digits l1 in
  let l3 := match l2 with c :: t => if c =? 46 then t else l2 | [] => l2 end in
  let l4 := j_digits l3 in
  let got := negb (Nat.eqb (length l2) (length l1)) || negb (Nat.eqb (length l4) (length l3)) in
  match l4 with
  | [] => JEnd
  | c :: l5 =>
    if negb got then JBad
    else if (c =? 101) || (c =? 69) then
      let l6 := match l5 with d :: t => if (d =? 43) || (d =? 45) then t else l5 | [] => l5 end in
      let l7 := j_digits l6 in
      match l7 with
      | [] => JEnd
      | _ => if Nat.eqb (length l7) (length l6) then JBad else JOk l7
      end
    else JOk l4
  end.

(* value / array tail / object tail, mutual recursion on fuel (one unit per container level);
   tails loop over their items with their own structural fuel on the input length *)
Fixpoint j_val (fuel : nat) (l : bytes) {struct fuel} : jo :=
  match fuel with
  | O => JBad
  | S f =>
    match l with
    | [] => JEnd
    | c :: l1 =>
      if c =? 34 then j_str l1
      else if c =? 91 then j_arr f (S (length l1)) l1
      else if c =? 123 then j_obj f (S (length l1)) l1
      else if c =? 116 then j_lit [116;114;117;101] l
      else if c =? 102 then j_lit [102;97;108;115;101] l
      else if c =? 110 then j_lit [110;117;108;108] l
      else j_num l
    end
  end
with j_arr (fuel : nat) (items : nat) (l : bytes) {struct fuel} : jo :=
  match fuel with
  | O => JBad
  | S f =>
    (fix loop (items : nat) (l : bytes) {struct items} : jo :=
       match items with
       | O => JBad
       | S it =>
         match j_ws l with
         | [] => JEnd
         | c :: l1 =>
           if c =? 93 then JOk l1 else
           match j_val f (c :: l1) with
           | JOk r =>
             match j_ws r with
             | [] => JEnd
             | d :: r1 => if d =? 44 then loop it r1 else if d =? 93 then JOk r1 else JBad
             end
           | o => o
           end
         end
       end) items l
  end
with j_obj (fuel : nat) (items : nat) (l : bytes) {struct fuel} : jo :=
  match fuel with
  | O => JBad
  | S f =>
    (fix loop (items : nat) (l : bytes) {struct items} : jo :=
       match items with
       | O => JBad
       | S it =>
         match j_ws l with
         | [] => JEnd
         | c :: l1 =>
           if c =? 125 then JOk l1 else
           if negb (c =? 34) then JBad else
           match j_str l1 with
           | JOk r =>
             match j_ws r with
             | [] => JEnd
             | d :: r1 =>
               if negb (d =? 58) then JBad else
               match j_ws r1 with
               | [] => JEnd
               | v :: r2 =>
                 match j_val f (v :: r2) with
                 | JOk r3 =>
                   match j_ws r3 with
                   | [] => JEnd
                   | e :: r4 => if e =? 44 then loop it r4 else if e =? 125 then JOk r4 else JBad
                   end
                 | o => o
                 end
               end
             end
           | o => o
           end
         end
       end) items l
  end.

Definition j_doc (x : bytes) : jo :=
  match j_ws x with
  | [] => JEnd
  | (c :: _) as l => if (c =? 91) || (c =? 123) then j_val (S (S (length x + length x))) l else JBad
  end.

(* the whole input is one relaxed document *)
Definition judge_whole (x : bytes) : bool :=
  match j_doc x with JOk r => match j_ws r with [] => true | _ => false end | _ => false end.
(* the input is a prefix of some relaxed document *)
Definition judge_prefix (x : bytes) : bool :=
  match j_doc x with JOk r => match j_ws r with [] => true | _ => false end | JEnd => true | JBad => false end.
