(* C11 specification side: well-formed UTF-8 (Unicode Table 3-7), "valid apart from a multi-byte
   sequence cut off at the very end", ASCII text characters, complete non-ASCII characters. *)
From Verif Require Import Base.Bytes Spec.SpecText.
Local Open Scope N_scope.

Definition inr (lo hi c : N) : bool := (lo <=? c) && (c <=? hi).

(* Table 3-7: second-byte range for a lead byte; None when c is not a multi-byte lead *)
Definition lead_info (c : byte) : option (nat * N * N) :=   (* continuation count, lo, hi of 2nd byte *)
  if inr 194 223 c then Some (1%nat, 128, 191)
  else if c =? 224 then Some (2%nat, 160, 191)
  else if inr 225 236 c then Some (2%nat, 128, 191)
  else if c =? 237 then Some (2%nat, 128, 159)
  else if inr 238 239 c then Some (2%nat, 128, 191)
  else if c =? 240 then Some (3%nat, 144, 191)
  else if inr 241 243 c then Some (3%nat, 128, 191)
  else if c =? 244 then Some (3%nat, 128, 143)
  else None.

(* one well-formed scalar encoding *)
Definition scalar (s : bytes) : bool :=
  match s with
  | [c] => c <? 128
  | c :: c1 :: rest =>
    match lead_info c with
    | Some (n, lo, hi) => inr lo hi c1 && Nat.eqb (length rest) (n - 1) && forallb (inr 128 191) rest
    | None => false
    end
  | [] => false
  end.

Inductive WellFormed : bytes -> Prop :=
| WF_nil : WellFormed []
| WF_app s t : scalar s = true -> WellFormed t -> WellFormed (s ++ t).

(* executable: peel one scalar of width 1..4 at a time *)
Fixpoint wf_b (fuel : nat) (l : bytes) : bool :=
  match fuel with
  | O => false
  | S f =>
    match l with
    | [] => true
    | c :: _ =>
      let w := if c <? 128 then 1%nat else match lead_info c with Some (n, _, _) => S n | None => 0%nat end in
      match w with
      | O => false
      | _ => Nat.leb w (length l) && scalar (firstn w l) && wf_b f (skipn w l)
      end
    end
  end.
Definition well_formed (l : bytes) : bool := wf_b (S (length l)) l.

(* a non-empty proper prefix of a multi-byte scalar encoding *)
Definition proper_prefix (t : bytes) : bool :=
  match t with
  | [] => false
  | c :: rest =>
    match lead_info c with
    | Some (n, lo, hi) =>
      Nat.ltb (length rest) n &&
      match rest with
      | [] => true
      | c1 :: more => inr lo hi c1 && forallb (inr 128 191) more
      end
    | None => false
    end
  end.

(* valid UTF-8 apart from a multi-byte sequence cut off at the very end *)
Definition up_to_trunc (s : bytes) : bool :=
  existsb (fun k => Nat.leb k (length s) &&
                    well_formed (firstn (length s - k) s) &&
                    (Nat.eqb k 0 || proper_prefix (skipn (length s - k) s)))
          [0; 1; 2; 3]%nat.

(* the complete part contains a non-ASCII character *)
Definition has_complete_non_ascii (s : bytes) : bool :=
  existsb (fun k => Nat.leb k (length s) &&
                    well_formed (firstn (length s - k) s) &&
                    (Nat.eqb k 0 || proper_prefix (skipn (length s - k) s)) &&
                    existsb (fun c => 128 <=? c) (firstn (length s - k) s))
          [0; 1; 2; 3]%nat.

(* ASCII text characters: BEL..CR, ESC, 0x20..0x7E *)
Definition ascii_text (c : byte) : bool := inr 7 13 c || (c =? 27) || inr 32 126 c.
Definition all_ascii_text (s : bytes) : bool := forallb ascii_text s.

Definition spec_bom_charset (s : bytes) : bytes :=
  match find (fun bm => has_prefix (fst bm) s) spec_boms with Some bm => snd bm | None => [] end.

Definition has_c1 (s : bytes) : bool := existsb (inr 128 159) s.

(* judgement of a sniffed charset cs for undeclared text s; returns [] when consistent, else a reason *)
Definition c11_judge (s cs : bytes) : bytes :=
  match spec_bom_charset s with
  | (_ :: _) as bc => if beq cs bc then [] else b "a byte-order mark must yield exactly its charset"
  | [] =>
    if beq cs (b "utf-8") && negb (up_to_trunc s) then b "utf-8 reported for bytes that are not valid UTF-8 up to a truncated final sequence"
    else if negb (beq cs (b "utf-8")) && up_to_trunc s && (all_ascii_text s || has_complete_non_ascii s) && negb (Nat.eqb (length s) 0)
      then b "utf-8 not reported for valid UTF-8 (ASCII text only, or with a complete non-ASCII character)"
    else if beq cs (b "windows-1252") && negb (has_c1 s) then b "windows-1252 reported without a byte in 0x80-0x9F"
    else if beq cs (b "iso-8859-1") && has_c1 s then b "iso-8859-1 reported although a byte in 0x80-0x9F occurs"
    else []
  end.
