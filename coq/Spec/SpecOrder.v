(* C03 / C18 / C19: the PRIORITY ORDER of the sub-formats of each format, as a specification constant.
   The property says "the first sub-format, in priority order, whose signature check accepts": the order is part of what
   users rely on (tar before xar, apk before jar, svg before xml, ...).  This table is hand-maintained: it is the order
   of /repo/tree.go when the checks were calibrated, written by variable name.  It is never regenerated.  Obligation
   (Props/C03.v): the regenerated tree lists the formats named here in this relative order (new formats may be added
   anywhere, formats may be removed).  The driver re-walks every observation over the tree re-ordered to this table
   (Model/Order.pin_tree): a reported path that is the first-match path only under a different order is a C03 failure
   with the input. *)
From Coq Require Import String List.
Import ListNotations.
Local Open Scope string_scope.

Definition pinned_children : list (string * list string) := [
  ("root", ["xpm"; "sevenZ"; "zip"; "pdf"; "fdf"; "ole"; "ps"; "psd"; "p7s"; "ogg"; "png"; "jpg"; "jxl"; "jp2"; "jpx"; "jpm"; "jxs"; "gif"; "webp"; "exe"; "elf"; "ar"; "tar"; "xar"; "bz2"; "fits"; "tiff"; "bmp"; "ico"; "mp3"; "flac"; "midi"; "ape"; "musePack"; "amr"; "wav"; "aiff"; "au"; "mpeg"; "quickTime"; "mp4"; "webM"; "avi"; "flv"; "mkv"; "asf"; "aac"; "voc"; "m3u"; "rmvb"; "gzip"; "class"; "swf"; "crx"; "ttf"; "woff"; "woff2"; "otf"; "ttc"; "eot"; "wasm"; "shx"; "dbf"; "dcm"; "rar"; "djvu"; "mobi"; "lit"; "bpg"; "cbor"; "sqlite3"; "dwg"; "nes"; "lnk"; "macho"; "qcp"; "icns"; "hdr"; "mrc"; "mdb"; "accdb"; "zstd"; "cab"; "rpm"; "xz"; "lzip"; "torrent"; "cpio"; "tzif"; "xcf"; "pat"; "gbr"; "glb"; "cabIS"; "jxr"; "parquet"; "text"]);
  ("zip", ["xlsx"; "docx"; "pptx"; "epub"; "apk"; "jar"; "odt"; "ods"; "odp"; "odg"; "odf"; "odc"; "sxc"]);
  ("odt", ["ott"]);
  ("ods", ["ots"]);
  ("odp", ["otp"]);
  ("odg", ["otg"]);
  ("ole", ["msi"; "aaf"; "msg"; "xls"; "pub"; "ppt"; "doc"]);
  ("ogg", ["oggAudio"; "oggVideo"]);
  ("png", ["apng"]);
  ("elf", ["elfObj"; "elfExe"; "elfLib"; "elfDump"]);
  ("ar", ["deb"]);
  ("mp4", ["avif"; "threeGP"; "threeG2"; "aMp4"; "mqv"; "m4a"; "m4v"; "heic"; "heicSeq"; "heif"; "heifSeq"; "mj2"; "dvb"]);
  ("shx", ["shp"]);
  ("text", ["html"; "svg"; "xml"; "php"; "js"; "lua"; "perl"; "python"; "json"; "ndJSON"; "rtf"; "srt"; "tcl"; "csv"; "tsv"; "vCard"; "iCalendar"; "warc"; "vtt"]);
  ("xml", ["rss"; "atom"; "x3d"; "kml"; "xliff"; "collada"; "gml"; "gpx"; "tcx"; "amf"; "threemf"; "xfdf"; "owl2"]);
  ("json", ["geoJSON"; "har"; "gltf"])
].
