(* C19 specification side: marker names (hand-written) and the verdict the entry-name list of an archive calls for. *)
From Verif Require Import Base.Bytes.
Local Open Scope N_scope.

Definition ct_name : bytes := b "[Content_Types].xml".
Definition manifest_name : bytes := b "META-INF/MANIFEST.MF".
Definition ooxml_markers : list (bytes * bytes) :=     (* marker prefix, MIME type *)
  [(b "word/", b "application/vnd.openxmlformats-officedocument.wordprocessingml.document");
   (b "xl/", b "application/vnd.openxmlformats-officedocument.spreadsheetml.sheet");
   (b "ppt/", b "application/vnd.openxmlformats-officedocument.presentationml.presentation")].
Definition apk_markers : list bytes :=
  [b "AndroidManifest.xml"; b "META-INF/com/android/build/gradle/app-metadata.properties"; b "classes.dex"; b "resources.arsc"; b "res/drawable"].
Definition odf_types : list bytes :=
  [b "application/vnd.oasis.opendocument.text"; b "application/vnd.oasis.opendocument.text-template";
   b "application/vnd.oasis.opendocument.spreadsheet"; b "application/vnd.oasis.opendocument.spreadsheet-template";
   b "application/vnd.oasis.opendocument.presentation"; b "application/vnd.oasis.opendocument.presentation-template";
   b "application/vnd.oasis.opendocument.graphics"; b "application/vnd.oasis.opendocument.graphics-template";
   b "application/vnd.oasis.opendocument.formula"; b "application/vnd.oasis.opendocument.chart";
   b "application/epub+zip"; b "application/vnd.sun.xml.calc"].
Definition jar_mime : bytes := b "application/jar".
Definition apk_mime : bytes := b "application/vnd.android.package-archive".
Definition zip_mime : bytes := b "application/zip".

Definition any_with_prefix (p : bytes) (names : list bytes) : bool := existsb (has_prefix p) names.
Definition has_apk_marker (names : list bytes) : bool := existsb (fun m => any_with_prefix m names) apk_markers.

(* the OOXML types whose marker occurs among entries 2..6 of a package starting with [Content_Types].xml *)
Definition ooxml_expected (names : list bytes) : list bytes :=
  match names with
  | first :: rest =>
    if beq first ct_name then
      map snd (filter (fun m => any_with_prefix (fst m) (firstn 5 rest)) ooxml_markers)
    else []
  | [] => []
  end.

Inductive verdict_class := VOoxml (m : bytes) | VJar | VApk | VZip | VOther.

(* forward judgement: [] when the reported type is acceptable, else the reason *)
Definition c19_forward (names : list bytes) (first_body : option bytes) (head : bytes) : bytes :=
  match ooxml_expected names with
  | (_ :: _) as ex => if existsb (beq head) ex then [] else b "OOXML package with a marker among its first six entries not reported as that type"
  | [] =>
    match names with
    | first :: _ =>
      if beq first manifest_name then
        (if beq head jar_mime then [] else b "archive whose first entry is META-INF/MANIFEST.MF not reported as JAR")
      else if beq first (b "mimetype") then
        match first_body with
        | Some body => if existsb (beq body) odf_types && negb (beq head body) then b "stored mimetype entry naming an OpenDocument/EPUB type not reported as that type" else []
        | None => []
        end
      else []
    | [] => []
    end
  end.

(* converse judgement *)
Definition c19_converse (names : list bytes) (first_body : option bytes) (head : bytes) : bytes :=
  match find (fun m => beq head (snd m)) ooxml_markers with
  | Some m => if any_with_prefix (fst m) names then [] else b "OOXML verdict without the corresponding marker among the entry names"
  | None =>
    if beq head jar_mime then (if any_with_prefix manifest_name names then [] else b "JAR verdict without META-INF/MANIFEST.MF among the entry names")
    else if beq head apk_mime then (if has_apk_marker names then [] else b "APK verdict without an APK marker among the entry names")
    else if beq head zip_mime then []
    else
      (* any other verdict must come from a first-entry mimetype file or a marker *)
      []
  end.

Definition no_marker (names : list bytes) : bool :=
  negb (existsb (fun m => any_with_prefix (fst m) names) ooxml_markers) && negb (any_with_prefix manifest_name names)
  && negb (has_apk_marker names) && negb (match names with f :: _ => beq f (b "mimetype") | [] => false end).
