(* C18 specification side: what a conforming tar writer puts into the first header block. *)
From Verif Require Import Base.Bytes Model.Tar.
Local Open Scope N_scope.

(* the checksum field as writers emit it: octal digits, then NUL and/or space padding (leading spaces or
   zeros allowed) - the recorded value is the octal number it spells *)
Definition octal_digit (c : byte) : bool := (48 <=? c) && (c <=? 55).
Fixpoint octal_value (ds : bytes) (acc : N) : N :=
  match ds with [] => acc | d :: ds' => octal_value ds' (acc * 8 + (d - 48)) end.

Definition chk_field (h : bytes) : bytes := firstn 8 (skipn 148 h).

(* POSIX: the checksum is the sum of the unsigned byte values of the header block with the checksum
   field itself taken as eight spaces; some historic writers summed signed bytes *)
Definition tar_header_ok (h : bytes) : bool :=
  Nat.eqb (length h) 512 &&
  match tar_parse_octal (chk_field h) with
  | Some s => Z.eqb (Z.of_N s) (usum h) || Z.eqb (Z.of_N s) (ssum h)
  | None => false
  end.

(* the Gentoo GLEP 78 exclusion (known finding K1) *)
Definition gpkg_name (h : bytes) : bool := contains gpkg (firstn 100 h).

(* single-byte update *)
Fixpoint upd (h : bytes) (p : nat) (v : byte) : bytes :=
  match h, p with
  | [], _ => []
  | _ :: t, O => v :: t
  | c :: t, S p' => c :: upd t p' v
  end.

(* the root formats that take precedence over tar: tar sits right after exe, elf and ar *)
Definition before_tar_spec : list string :=
  ["xpm"; "sevenZ"; "zip"; "pdf"; "fdf"; "ole"; "ps"; "psd"; "p7s"; "ogg"; "png"; "jpg"; "jxl"; "jp2"; "jpx"; "jpm"; "jxs";
   "gif"; "webp"; "exe"; "elf"; "ar"]%string.
