#!/usr/bin/env python3
"""Regenerate the table part of seeded/RESULTS.md from seeded/*/meta.json (keeps the hand-written sections)."""
import json, glob, os, re
ROOT = "/verif/seeded"
rows = []
for f in sorted(glob.glob(ROOT + "/C*/meta.json")):
    m = json.load(open(f))
    r = m.get("check_result", {})
    c = m.get("confirmed_by_me", {})
    conf = all(c.get(k) for k in ("applies", "builds", "suite_passes", "demo_fails_with_patch", "demo_passes_without_patch"))
    rows.append((m["id"], m.get("round", 1), conf, r.get("caught"), r.get("with_failing_input"), (m.get("summary") or "")[:110].replace("|", "/").replace("\n", " ")))
tab = "| id | round | confirmed | caught | with failing input | change |\n|---|---|---|---|---|---|\n"
for i, rd, conf, c, wi, s in rows:
    tab += "| %s | %s | %s | %s | %s | %s |\n" % (i, rd, "yes" if conf else "NO", "yes" if c else ("NO" if c is not None else "-"), "yes" if wi else ("obligation" if c else "-"), s)
p = os.path.join(ROOT, "RESULTS.md")
s = open(p).read()
a = s.index("| id |")
b = s.index("\n\n", a)   # the table ends at the first blank line
s = s[:a] + tab.rstrip("\n") + s[b:]
open(p, "w").write(s)
n = len(rows); caught = sum(1 for r in rows if r[3]); wi = sum(1 for r in rows if r[4])
print("%d changes, %d caught, %d with input" % (n, caught, wi))
