#!/usr/bin/env python3
"""Record the content hashes of /repo's non-test Go sources (run on the calibrated tree; committed)."""
import glob, hashlib, json, os
out = {}
for f in sorted(glob.glob("/repo/*.go") + glob.glob("/repo/internal/*/*.go")):
    if f.endswith("_test.go") or f.endswith("verif_hooks.go"):
        continue
    out[os.path.relpath(f, "/repo")] = hashlib.sha256(open(f, "rb").read()).hexdigest()
json.dump(out, open(os.path.join(os.path.dirname(os.path.abspath(__file__)), "fingerprints.json"), "w"), indent=1, sort_keys=True)
print(len(out), "files")
