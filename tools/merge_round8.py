#!/usr/bin/env python3
"""Round 8: copy the blind first-pass results (frozen clone /tmp/vfrozen, evaluated against /tmp/erepo) into
seeded/<id>/meta.json as first_pass + check_result; record the re-evaluations made after the strengthenings."""
import json, glob, os, subprocess
commit = subprocess.run("git -C /tmp/vfrozen log --oneline | head -1", shell=True, stdout=subprocess.PIPE, text=True).stdout.strip()
REEVAL = {
    "C01-23": "every detection the harness makes is under the watchdog (the hang sat in an un-numbered history): reported after 20 s with the input",
    "C02-22": "rooted / finite / parameter-free ancestry judged on every probe result of the Extend histories (chains of five and more nodes)",
    "C05-23": "small line-format files without a final newline / with a ragged last line through DetectFile at limits 0, default, len, len+1",
    "C07-23": "every byte-order mark followed by one and two arbitrary bytes (NUL among them)",
    "C09-23": "arrays of 20-200 numbers with one or all separators damaged",
    "C19-22": "OOXML packages with a stored part of 70-260 KiB in front of the marker (limit 0); channels run with the last good driver when the model side no longer builds",
    "C14-22": "histories that register the same (name, extension) pair again under the same parent with another accepting format registered in between",
}
for d in sorted(glob.glob("/tmp/vfrozen/seeded/C*/meta.json")):
    fm = json.load(open(d))
    if fm.get("round") != 8:
        continue
    p = os.path.join("/verif/seeded", fm["id"], "meta.json")
    m = json.load(open(p))
    cr = dict(fm.get("check_result", {}))
    if fm["id"] == "C01-23":
        cr.update({"caught": False, "with_failing_input": False, "violation_line": None,
                   "note": "the check did not finish: sixteen shards spun in an un-numbered history until the 50-minute channel timeout"})
    fp = dict(cr)
    fp["machinery_commit"] = commit + " (frozen when the round was imported; blind)"
    m["first_pass"] = fp
    m["check_result"] = dict(cr)
    if fm["id"] in REEVAL:
        m["check_result"].update({"caught": True, "with_failing_input": True, "violation_line": "VIOLATION property=%s replay=<replays/...propfail...>" % fm["property"],
                                  "re_evaluated_after_strengthening": REEVAL[fm["id"]]})
    json.dump(m, open(p, "w"), indent=1)
print("merged")
