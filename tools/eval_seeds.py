#!/usr/bin/env python3
"""Confirm each seeded mutation in a scratch worktree (applies, builds, suite green, demo fails with / passes
without) and run the checks of its property against it on /repo (apply, check, undo).
Usage: eval_seeds.py confirm|check [property ids...]   Results go into seeded/<id>-<k>/meta.json
(confirmed_by_me / check_result). The evidence file a check run writes against a changed tree is
restored from git afterwards: committed evidence only ever comes from the unchanged tree."""
import json, os, shutil, subprocess, sys, glob, time
ROOT = "/verif"
ENV = dict(os.environ, VERIF_FIRST_FAILURE="1", GOFLAGS="-mod=mod", GOPROXY="off", GOSUMDB="off", GOTOOLCHAIN="local")

def sh(cmd, cwd=None, timeout=1800):
    p = subprocess.run(cmd, cwd=cwd, env=ENV, shell=True, stdout=subprocess.PIPE, stderr=subprocess.STDOUT, text=True, timeout=timeout)
    return p.returncode, p.stdout

def seeds(ids):
    out = []
    for d in sorted(glob.glob(os.path.join(ROOT, "seeded", "C[0-9][0-9]-[0-9]*"))):
        pid, k = os.path.basename(d).split("-")
        if ids and pid not in ids:
            continue
        only = os.environ.get("SEED_IDS")
        if only and "%s-%s" % (pid, k) not in only.split(","):
            continue
        rnd = os.environ.get("SEED_ROUND")
        if rnd and str(json.load(open(os.path.join(d, "meta.json"))).get("round", 1)) != rnd:
            continue
        out.append((pid, k, d))
    return out

def confirm(ids):
    wt = "/tmp/confirm-wt"
    sh("git -C /repo worktree remove --force %s" % wt)
    rc, out = sh("git -C /repo worktree add -q --detach %s HEAD" % wt)
    assert rc == 0, out
    try:
        for pid, k, d in seeds(ids):
            res = {"property": pid, "k": k}
            meta = json.load(open(os.path.join(d, "meta.json")))
            notes = {"demo_dir": meta["demonstration"].get("copy_to", "."), "demo_cmd": meta["demonstration"].get("command", "")}
            patch = os.path.join(d, "patch.diff")
            sh("git checkout -q -- . && git clean -fdq", cwd=wt)
            rc, out = sh("git apply %s" % patch, cwd=wt)
            how = "git apply"
            if rc != 0:
                rc, out = sh("git apply -3 %s" % patch, cwd=wt)
                how = "git apply -3"
            res["applies"] = rc == 0
            res["apply_how"] = how
            if rc != 0:
                res["apply_out"] = out[-500:]
                meta["confirmed_by_me"].update({"applies": False})
                json.dump(meta, open(os.path.join(d, "meta.json"), "w"), indent=1)
                print(pid, k, "DOES NOT APPLY")
                continue
            # save the diff as it applies to the current tree
            rc, out = sh("go build ./... && go vet -tags verif ./... >/dev/null 2>&1; go build -tags verif ./...", cwd=wt)
            res["builds"] = rc == 0
            rc, out = sh("go test -count=1 ./... 2>&1 | tail -8", cwd=wt)
            res["suite_passes"] = rc == 0 and "FAIL" not in out
            res["suite_tail"] = out[-400:]
            demo_dir = notes.get("demo_dir", ".") or "."
            dst = os.path.join(wt, demo_dir, "seed_demo_test.go")
            shutil.copyfile(os.path.join(d, "demo_test.go"), dst)
            race = "-race " if ("-race" in notes.get("demo_cmd", "") or pid == "C06") else ""
            pkg = "./" + demo_dir if demo_dir != "." else "."
            rc1, out1 = sh("go test %s-count=1 -timeout 300s -run TestSeed %s 2>&1 | tail -15" % (race, pkg), cwd=wt)
            res["demo_fails_with_patch"] = ("FAIL" in out1) or rc1 != 0
            res["demo_with_tail"] = out1[-600:]
            sh("git checkout -q -- .", cwd=wt)
            rc2, out2 = sh("go test %s-count=1 -timeout 300s -run TestSeed %s 2>&1 | tail -5" % (race, pkg), cwd=wt)
            res["demo_passes_without_patch"] = rc2 == 0 and "FAIL" not in out2 and "ok" in out2
            res["demo_without_tail"] = out2[-300:]
            os.remove(dst)
            res["confirmed"] = bool(res["builds"] and res["suite_passes"] and res["demo_fails_with_patch"] and res["demo_passes_without_patch"])
            meta["confirmed_by_me"].update({x: res[x] for x in ("applies", "builds", "suite_passes", "demo_fails_with_patch", "demo_passes_without_patch")})
            json.dump(meta, open(os.path.join(d, "meta.json"), "w"), indent=1)
            print(pid, k, "confirmed" if res["confirmed"] else "NOT CONFIRMED", {x: res[x] for x in ("builds", "suite_passes", "demo_fails_with_patch", "demo_passes_without_patch")})
    finally:
        sh("git -C /repo worktree remove --force %s" % wt)

def check(ids, extra_props=None):
    rc, out = sh("git -C /repo status --porcelain")
    assert out.strip() == "", "repo dirty: " + out
    for pid, k, d in seeds(ids):
        meta = json.load(open(os.path.join(d, "meta.json")))
        res = {}
        patch = os.path.join(d, "patch.diff")
        rc, out = sh("git -C /repo apply %s" % patch)
        if rc != 0:
            print(pid, k, "patch does not apply to /repo")
            continue
        try:
            t0 = time.time()
            try:
                rc, out = sh("bin/check %s" % pid, cwd=ROOT, timeout=3000)
            except subprocess.TimeoutExpired:
                rc, out = 124, "bin/check %s did not finish within 3000 s" % pid
                sh("pkill -9 -f '%s/run/verifh'; pkill -9 -f '%s/run/driver'" % (ROOT, ROOT))
            res["check_rc"] = rc
            res["check_out"] = out[-1500:]
            res["check_s"] = round(time.time() - t0, 1)
            res["caught"] = rc == 1 and "VIOLATION" in out
            res["caught_with_input"] = res["caught"] and "no-failing-input-found" not in out
        finally:
            sh("git -C /repo checkout -- . && git -C /repo clean -fdq")
        first = [l for l in out.splitlines() if l.startswith("VIOLATION")]
        meta["check_result"].update({"caught": res.get("caught"), "with_failing_input": res.get("caught_with_input"),
                                     "violation_line": first[0] if first else None, "seconds": res.get("check_s")})
        json.dump(meta, open(os.path.join(d, "meta.json"), "w"), indent=1)
        sh("git -C %s checkout -- evidence/%s.json" % (ROOT, pid))
        sh("%s/run/verifh gen /repo %s/coq/Gen" % (ROOT, ROOT))   # bring coq/Gen back in line with the restored tree
        print(pid, k, "CAUGHT" if res.get("caught") else "MISSED", "(with input)" if res.get("caught_with_input") else "", res.get("check_s"))

if __name__ == "__main__":
    mode = sys.argv[1]
    ids = sys.argv[2:]
    if mode == "confirm":
        confirm(ids)
    else:
        check(ids)
