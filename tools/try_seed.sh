#!/bin/bash
# tools/try_seed.sh <patch.diff> <ID> [more IDs]: apply a seeded change to /repo, run the checks, undo.
p="$1"; shift
cd /repo || exit 2
if ! git diff --quiet; then echo "repo dirty"; exit 2; fi
git apply "$p" || { echo "patch does not apply"; exit 2; }
cd /verif
for id in "$@"; do
  out=$(bin/check "$id" 2>&1); rc=$?
  echo "== $id rc=$rc"; echo "$out" | tail -4
done
git -C /repo checkout -- . ; git -C /repo status --short | head -3
