#!/usr/bin/env python3
"""Import eighth-round seeded changes from /tmp/seed8-<id>/out/<k> into seeded/<id>-<k+21>/ (meta.json from notes.json)."""
import json, os, shutil, sys, glob
ROOT = "/verif/seeded"
for d in sorted(glob.glob("/tmp/seed8-C*/out/[0-9]")):
    pid = d.split("/")[2].replace("seed8-", "")
    k = int(d.split("/")[-1]) + 21
    if not os.path.exists(os.path.join(d, "patch.diff")) or not os.path.exists(os.path.join(d, "demo_test.go")):
        print("incomplete", d); continue
    out = os.path.join(ROOT, "%s-%d" % (pid, k))
    os.makedirs(out, exist_ok=True)
    shutil.copyfile(os.path.join(d, "patch.diff"), os.path.join(out, "patch.diff"))
    shutil.copyfile(os.path.join(d, "demo_test.go"), os.path.join(out, "demo_test.go"))
    try:
        notes = json.load(open(os.path.join(d, "notes.json")))
    except Exception as e:
        notes = {"summary": "notes.json unreadable: %s" % e}
    meta = {"id": "%s-%d" % (pid, k), "property": pid, "round": 8,
            "summary": notes.get("summary", ""), "needs_in_order_to_manifest": notes.get("needs", ""), "violates": notes.get("violates", ""),
            "demonstration": {"file": "demo_test.go", "copy_to": notes.get("demo_dir", ".") or ".", "command": notes.get("demo_cmd", "go test -count=1 -run TestSeed .")},
            "written_by": "independent sub-agent (eighth round: adversarial: two changes per property that need something specific to manifest, evaluated blind) given only the property text and a scratch worktree (nothing from /verif)",
            "confirmed_by_me": {"how": "tools/eval_seeds.py confirm: scratch worktree of /repo HEAD; git apply; go build ./... (also -tags verif); go test -count=1 ./... (unedited suite); demo copied in and run (must FAIL); patch reverted, demo run again (must PASS)"},
            "check_result": {"command": "git -C /repo apply patch.diff && bin/check %s && git -C /repo checkout -- ." % pid}}
    json.dump(meta, open(os.path.join(out, "meta.json"), "w"), indent=1)
    print("imported", out)
