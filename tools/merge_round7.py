#!/usr/bin/env python3
"""Round 7: copy the blind first-pass results (frozen clone /tmp/vfrozen, evaluated against /tmp/erepo) into
seeded/<id>/meta.json as first_pass + check_result; record the re-evaluations made after the strengthenings."""
import json, glob, os, subprocess
commit = subprocess.run("git -C /tmp/vfrozen log --oneline | head -1", shell=True, stdout=subprocess.PIPE, text=True).stdout.strip()
REEVAL = {  # id -> violation line observed with the strengthened machinery (apply, bin/check, undo), all with a failing input
    "C01-18": "edge documents: '#!' followed by blanks only", "C01-20": "edge documents, single-byte deletions: an unclosed quote inside the content attribute",
    "C01-21": "term-directed witnesses cut at the guard length (31 bytes)", "C02-20": "witnesses of child nodes joined with their ancestors (an ET_EXEC ELF header)",
    "C03-18": "specified priority order (Spec/SpecOrder.v) + tar archives whose first member is named after another format's leading bytes",
    "C03-19": "specified priority order (Spec/SpecOrder.v): an SVG document that starts with an XML declaration",
    "C04-18": "race-detector runs of the stress mix as a channel of C04 (pooled scanner state touched after Put)",
    "C12-18": "first tag in upper / lower / alternating case for every tag of the HTML signature list",
    "C12-20": "';', a further parameter or a blank behind the label inside the content attribute",
    "C13-20": "unterminated string lines (ending in a backslash) among the damaged NDJSON lines",
    "C13-21": "blank and white-space-only lines at every position of a stream",
}
for d in sorted(glob.glob("/tmp/vfrozen/seeded/C*/meta.json")):
    fm = json.load(open(d))
    if fm.get("round") != 7:
        continue
    p = os.path.join("/verif/seeded", fm["id"], "meta.json")
    m = json.load(open(p))
    fp = dict(fm.get("check_result", {}))
    fp["machinery_commit"] = commit + " (frozen when the round was imported; blind: nothing was changed until all 72 were judged)"
    m["first_pass"] = fp
    m["check_result"] = dict(fm.get("check_result", {}))
    if fm["id"] in REEVAL:
        m["check_result"].update({"caught": True, "with_failing_input": True, "violation_line": "VIOLATION property=%s replay=<replays/...propfail...>" % fm["property"],
                                  "re_evaluated_after_strengthening": REEVAL[fm["id"]]})
    json.dump(m, open(p, "w"), indent=1)
print("merged")
