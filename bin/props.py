"""Per-property configuration of bin/check: channels, cone of correspondence mismatches that count,
what is proved, assumptions."""

COMMON_ASSUME = [
    "64-bit int (linux/amd64); slices handed to detectors have cap >= len only",
    "stdlib calls neither panic nor diverge",
]

PROPS = {
    "C03": {
        "channels": [{"cmd": "run-det"}, {"cmd": "run-c14", "shards": 8}],
        "cone": r"^MISMATCH (walk|harness|driver)",
        "rule": "seed inputs (one positive per signature literal of /repo, testdata files, writer-produced tar/zip/OLE/JSON/HTML/CSV, multi-match inputs) x boundary truncations x limits {0,3072,len-1,len,len+1,1,2^32-1} x byte mutations + random short strings; for each, the chain Detect reports must equal the first-match walk over the regenerated tree driven by the verdicts Go's own detectors returned; distinct = hash of (limit, header); non-trivial = some non-root detector accepted",
        "proved": "walk = declarative first-match path (sound+complete), ancestors accept, no child of the result accepts, consulted only below accepting nodes: for every tree, every verdict function; instance on Detect over the regenerated tree",
        "not_proved": "that Go's match/cloneHierarchy implement `walk` is established by the walk correspondence channel, not by proof",
        "assumptions": COMMON_ASSUME + ["detectors are pure total predicates of (header, limit)"],
    },
    "C07": {
        "channels": [{"cmd": "run-c07"}],
        "cone": r"^MISMATCH (walk|harness|driver)",
        "cone_nodes": ["text"],
        "data_obligations": ["Tables.boms = Spec.spec_boms", "only node `text` has MIME text/plain", "text is the last root child", "node text's detector is magic.Text"],
        "rule": "each of the 28 binary data bytes x every position of text seeds x {inside the limit, just past the limit, last examined byte}; every BOM x binary tails x limits and cuts; non-binary control bytes; the empty input; all detector seeds with one byte replaced by a binary byte; judged by the extracted spec predicate text_spec on the examined header; non-trivial = some non-root detector accepted",
        "proved": "magic.Text as translated from the current source on this run (harness/gores.go -> Gen/SrcFuncs.v) never panics and equals text_det (C07_text_is_the_source); magic.Text = (BOM or no WHATWG binary byte) for every byte string; text/plain in hierarchy => text_spec(header); text_spec(header) => result is not the bare root (all inputs, limits, oracles)",
        "not_proved": "",
        "assumptions": COMMON_ASSUME,
    },
    "C17": {
        "channels": [{"cmd": "run-c17"}, {"cmd": "run-det", "args": []}],
        "cone": r"^MISMATCH (walk|harness|driver)",
        "cone_nodes": "root_children",
        "data_obligations": ["every root child except text is in the monotone class or is ttf", "mdb/accdb are root children with the signatures ttf excludes", "text is the last root child"],
        "rule": "c17: every seed (and mutated / shifted variants) is detected at every limit 1..len+1 and at 0; once a limit gives a non-text root format every larger limit must too; non-trivial = the input is binary at some but not all limits. det: the detector correspondence on the same seed family (root children are the cone)",
        "proved": "limit_monotone for all inputs < 4 GiB, all limit pairs, all oracles; GoLite monotonicity analysis sound; tar/crx/matroska monotone; ttf hand-over; the hand models of Tar, CRX, Mkv, WebM are the current source (translated on this run and proved equal, C17_hand_models_are_the_source)",
        "not_proved": "inputs of 4 GiB or more (uint32(len(raw)) wraps in CRX)",
        "assumptions": COMMON_ASSUME + ["input shorter than 4 GiB"],
    },
    "C01": {
        "channels": [{"cmd": "run-det"}, {"cmd": "run-bombs", "shards": 16}],
        "cone": None,
        "rule": "same stream as C03 with every detector called directly under recover on an exact-capacity copy and on a prefix of a poisoned larger buffer; a panic, a poison-dependent verdict, a nil result or a 20 s hang is a property failure",
        "data_obligations": ["translation_agrees: the bodies of all 37 function detectors with a GoLite term (loops over literal tables and constant ranges unrolled, switches, masked comparisons, helpers inlined), translated from the current source, equal the hand-written terms up to a normalisation proved to preserve result and Panic behaviour", "comb_translation_agrees: for each of the 93 signatures built by prefix / offset / ftyp / jpeg2k, the combinator closure body in the current source instantiated with the literal arguments equals the model term", "every translated body passes the bounds analysis", "src_untranslated = []: all 37 functions of the offset-computing and looping families (incl. Text, Svg, Php) are inside the second translator's fragment; the lemmas of Proofs/Src{Ole,Zip,Mkv,Tar}P.v are re-proved against the freshly translated definitions"],
        "proved": "soundness of the bounds analysis (a GoLite term that passes it never evaluates to Panic, for every input, limit and environment); regenerated obligation: every combinator instance of tree.go and every GoLite detector term passes the analysis; every node of the regenerated tree has a model; the offset-computing detectors (zipContains, CRX, matchOleClsid, Ppt, Matroska, Tar): checked transliterations in which every index / slice expression carries Go's run-time check never reach Panic, for any input (uint32 wrap-around and 64-bit int as in the code), and equal the total models; the four combinators that loop over the input (ciPrefix, markup, xml, shebang - 24 signatures - with ciCheck, markupCheck, xmlCheck, shebangCheck, isWS, trimLWS, trimRWS, firstLine) as translated from the current source never index out of range, never exhaust their loop fuel and equal the list models for every signature list and input (C01_source_text_combinators_never_panic); the same fifteen detectors and their seven helpers AS TRANSLATED FROM THE CURRENT SOURCE on this run (harness/gores.go -> Gen/SrcFuncs.v: every statement one binding, every index / slice / Uint32 with its run-time check, Go evaluation order, uint32 / uint8 wrap, loops over the input as folds, `for cond` with fuel) never reach Panic and return exactly the model the tree walk evaluates for their node, for every input made of bytes and every limit (C01_source_offset_detectors_never_panic); the model's Detect is total and returns a registered chain ending in the root for every input and limit",
        "not_proved": "the JSON scanner, NDJSON/CSV and the charset sniffers are modelled as total list functions in suffix-passing style (an index error is not representable); the translator harness/gores.go is trusted for what it prints (it refuses anything outside its fragment; its output is also run against the Go code in the det channel, Panic included); 64-bit int arithmetic is taken exact; crash- and hang-freedom on the real code is exercised (recover, poisoned capacity, hostile length fields, watchdog), not proved; stdlib calls are assumed not to panic",
        "assumptions": COMMON_ASSUME,
    },
}

PROPS["C16"] = {
    "channels": [{"cmd": "run-c16"}],
    "cone": r"^MISMATCH (json|json-fuel|harness|driver)",
    "rule": "documents nested exactly at, one and two levels past the recursion cap (closed, examined whole; open, truncated mode), verdict compared with the model; bombs of 10^4..10^6 (thorough: 10^7) levels in four shapes ('[', '{\"k\":', mixed, padded), open and closed, at limits 0 and 2^32-1, run in a process whose maximum stack is 16 MB: must return, must not be reported as JSON; a fatal stack overflow kills the shard (no DONE line) and is reported",
    "proved": "depth_bounded (recursion level <= cap for every input, query, limit), pool installs the cap (regenerated runtime dump), bomb_rejected: more than cap+1 containers opened in a row - arrays and objects in any mixture, any keys, any layout, anything after them - are not JSON in whole and truncated mode (array_bomb_rejected is the all-brackets instance)",
    "not_proved": "bytes of stack per frame and Go's stack growth (exercised: bombs of 10^4..10^7 levels in four shapes under a 16 MB stack limit); model = Go scanner by correspondence",
    "data_obligations": ["pool_max_recursion = max_recursion = 4096"],
    "assumptions": COMMON_ASSUME + ["Go recursion depth equals the model's lvl structure (two frames per level)"],
}

JSON_ASSUME = COMMON_ASSUME + ["fuel 2*len+2 suffices (model flag oof never raised in any run; proved separately where stated)"]

PROPS["C09"] = {
    "channels": [{"cmd": "run-json-exh"}, {"cmd": "run-json"}, {"cmd": "run-bombs", "shards": 16}],
    "cone": r"^MISMATCH (json|json-fuel|judge|ndjson|harness|driver)",
    "exhaustive": True,
    "rule": "jexh: every string over the 18-symbol alphabet `[]{},:\"\\a1-.e tu0n` up to length 5 (quick) / 6 (thorough), in whole mode (limit 0) and truncated mode (limit = len): implementation verdict vs model vs the independent grammar judge; json: generated RFC 8259 documents x every cut x four queries with dirty recycled pool states, token mutations (delete/duplicate/swap/insert structural bytes), fixed tricky strings; non-trivial = accepted by some JSON-family detector",
    "proved": "C09 in full on the model: accounting invariant, scanner soundness w.r.t. the relaxed grammar, partial soundness with explicit completions, json_sound_whole, json_sound_truncated for every query / token set / recursion cap",
    "not_proved": "",
    "assumptions": JSON_ASSUME,
}

PROPS["C08"] = {
    "channels": [{"cmd": "run-json"}, {"cmd": "run-json-exh"}, {"cmd": "run-c10", "shards": 8}, {"cmd": "run-json-deep", "shards": 6}, {"cmd": "run-bombs", "shards": 16}],
    "cone": r"^MISMATCH (json|json-fuel|judge|harness|driver)",
    "exhaustive": True,
    "data_obligations": ["children of text/plain before json are html, svg, xml, php, js, lua, perl, python"],
    "rule": "json: generator-produced RFC 8259 documents (all token spellings, layouts, strings starting with structural characters, escapes, non-ASCII), confirmed by encoding/json.Valid, examined whole and at every cut after the opening bracket (limit = cut): a rejection by the implementation is a C08 failure; jexh: exhaustive agreement with the model whose acceptance is proved sound (C09) and equals the grammar judge on every enumerated string; c10: whole valid objects must land in the JSON family; non-trivial = accepted by a JSON-family detector",
    "data_obligations_extra": ["json is a child of text/plain, text/plain the last root child, json's detector is magic.JSON (ob_json_position)"],
    "proved": "the full statement on the model: for every document of the RFC 8259 grammar (depth within the cap) and every limit that leaves the opening bracket inside the header, the JSON detector accepts the header (C08_every_cut = C08_whole + C08_truncated), and Detect's hierarchy contains application/json unless a format consulted earlier accepts (C08_detect). Ingredients: completeness of the scanner by mutual induction over the grammar; the scanner is online (a prefix of an input scanned to completion is inspected to its last byte, for every query table, cap and fuel); the result does not depend on fuel beyond 2*len+2",
    "not_proved": "that the Go scanner is the modelled scanner (correspondence: json, jexh, jdeep channels); that every RFC 8259 text produced by a real encoder lies in the grammar (checked per generated document against encoding/json.Valid)",
    "assumptions": JSON_ASSUME,
}
PROPS["C10"] = {
    "channels": [{"cmd": "run-c10"}, {"cmd": "run-json", "shards": 8}],
    "cone": r"^MISMATCH (json|json-fuel|harness|driver)",
    "data_obligations": ["Tables.queries = Spec queries (nine RFC 7946 names, HAR and glTF deciding members)", "children of json are geojson, har, gltf in this order"],
    "rule": "objects with 0-6 sibling members (scalars, empty and non-empty arrays, nested objects re-using type/log/asset/version, look-alike keys) x a deciding member at every position (nine geo names, three HAR members, glTF versions) / near-misses / two deciders of different families x four layouts x limits {0, len+1, right after the deciding member, right after a later member}; judged by the extracted independent member splitter subtype_spec; non-trivial = result other than plain application/json",
    "proved": "the full statement on the model, whole mode: for every query table, scanning any value of the RFC 8259 grammar within the recursion cap succeeds, leaves the key-path stack balanced (C10_path_balanced, the D2 invariant, for every input) and sets querySatisfied to the value's query-hit status, an attribute over the grammar that is a disjunction over members / elements (C10_query_equation; status total and functional); instances for the three regenerated tables on an object given as an arbitrary member list: GeoJSON iff a top-level type member is one of the nine names, HAR iff a top-level log member is an object with a version/creator/entries member, glTF iff a top-level asset member is an object whose version member is 1.0 or 2.0; child order geojson, har, gltf under json; truncated mode (C10_truncated): a header cut anywhere behind the value of a top-level member whose status is a hit is still accepted, whatever members precede it (querySatisfied is never reset: C10_flag_monotone; every byte of the cut is inspected: scan_online)",
    "not_proved": "that the Go scanner is the modelled scanner (json / c10 correspondence); keys and values with escape sequences are compared literally (as the property states)",
    "assumptions": JSON_ASSUME,
}
PROPS["C11"] = {
    "channels": [{"cmd": "run-c11"}],
    "cone": r"^MISMATCH (charset|harness|driver)",
    "exhaustive": True,
    "data_obligations": ["Tables.boms = Spec.spec_boms", "textChars class T below 0x80 = ASCII text characters of the specification"],
    "rule": "every string over the 23 byte classes 61 0A 1B 7F 80 85 8F 90 9F A0 BB BF C2 DF E0 E1 ED EF F0 F4 F5 FE FF up to length 4 (quick) / 5 (thorough) through charset.FromPlain, compared with the model and judged by the extracted predicate c11_judge (Unicode Table 3-7 well-formedness, cut-off final sequence, C1 bytes); real UTF-8 / Latin / BOM texts cut at every limit through FromPlain and through Detect's charset parameter; non-trivial = a charset was reported",
    "proved": "the full statement on the model, for every byte string: BOM clause; utf-8 only if the bytes are valid UTF-8 (Unicode Table 3-7, shown equal to the model of utf8.Valid) apart from a multi-byte sequence cut off at the very end; utf-8 always for such text that is ASCII text only or has a complete non-ASCII character (trailing-partial-rune trimmer and FullRune characterised); windows-1252 / iso-8859-1 split; table obligations",
    "not_proved": "that charset.FromPlain, utf8.Valid, utf8.FullRune and utf8.RuneStart are the modelled functions (correspondence, exhaustive over the byte-class alphabet, plus the specification predicate judging the implementation directly)",
    "assumptions": COMMON_ASSUME,
}
PROPS["C12"] = {
    "channels": [{"cmd": "run-c12"}],
    "cone": r"^MISMATCH (meta|harness|driver)",
    "rule": "HTML documents (6 prologues; comments, scripts, styles, titles containing fake metas; other metas) declaring a random token-character label through <meta charset> or an http-equiv pragma in three quoting styles, any attribute order, letter case and spacing, optional UTF-8 BOM; XML prologues with both quote styles, white space (also around '='), standalone; the real token stream is dumped and fed to the prescan model; Detect's charset parameter must be the lower-cased label (utf-16* -> utf-8 for HTML meta; BOM wins); attribute-string fragments through fromMetaElement / xmlEncoding vs model",
    "proved": "xmlEncoding, fromMetaElement (three quoting styles), the meta attribute loop and prescan, BOM precedence, lower-casing: for all labels",
    "not_proved": "x/net/html and encoding/xml tokenizers are oracles (their token streams are inputs of the model)",
    "assumptions": COMMON_ASSUME + ["x/net/html tokenizer and encoding/xml RawToken deliver the tokens dumped by the harness"],
}

PROPS["C18"] = {
    "channels": [{"cmd": "run-c18"}],
    "cone": r"^MISMATCH (tar|tar-spec|walk|harness|driver)",
    "rule": "archives written by archive/tar (USTAR, PAX, GNU; names incl. non-ASCII, 100+ characters, gpkg-1 look-alikes; modes, ids, sizes, six entry types): the first block must satisfy the specification predicate tar_header_ok (ties the spec to real writers) and Detect must report tar unless a root child before tar accepts; every position 0..511 outside the checksum field of 12 (thorough 24) headers x 6 (thorough 255) replacement values: must not be tar; Tar detector vs model on all; non-trivial = reported as tar",
    "proved": "tar_accepts, tar_corruption (all 512-byte blocks, all positions, all values), corruption_breaks_both; K1 as explicit hypothesis with refutation witness; Tar, tarParseOctal and tarChksum as translated from the current source on this run never panic and equal tar_det / tar_parse_octal / (usum, ssum) for every input made of bytes (C18_tar_is_the_source, C18_checksum_helpers_are_the_source)",
    "not_proved": "",
    "assumptions": COMMON_ASSUME + ["conforming writers emit first blocks satisfying tar_header_ok (checked on every generated archive)"],
}

PROPS["C19"] = {
    "channels": [{"cmd": "run-c19"}, {"cmd": "run-det", "shards": 16}],
    "cone": r"^MISMATCH (walk|harness|driver)",
    "cone_nodes": ["zip", "xlsx", "docx", "pptx", "epub", "apk", "jar", "odt", "ott", "ods", "ots", "odp", "otp", "odg", "otg", "odf", "odc", "sxc"],
    "data_obligations": ["zip children and their order (apk before jar); every zip-based format has parent application/zip", "marker literals of the Go functions = specification markers"],
    "rule": "archives written by archive/zip (CreateHeader with data descriptors and CreateRaw without; stored and deflated; bodies 0-2 kB; archives whose bodies embed a local-header signature are filtered out and counted): OOXML packages with [Content_Types].xml first, bookkeeping parts in any combination and a word/ xl/ ppt/ part at entry 2..6; JAR (with and without APK markers); stored mimetype entry naming each OpenDocument/EPUB type; marker-free archives of near-miss names; late / misplaced markers; the entry list read back with archive/zip is the oracle for both directions (extracted predicates c19_forward, c19_converse, no_marker); det: zip detectors vs model; non-trivial = result other than plain application/zip",
    "proved": "first-entry clauses (JAR signature, offset-30 ODF/EPUB), zip sub-tree structure, marker literals; the five-hop walk (C19_walk): on an archive laid out as local entries + central directory, under the layout conditions (after offset 26 of a footprint the next local-header signature is the next header; the first size field points into or right behind the first footprint; signature tests decided by the names) zipContains = the signature is a prefix of one of the first six names, and for OOXML the first name is a bookkeeping part - forward and converse in one equation; the hop condition from byte-level facts (C19_hop_condition); zipContains and Docx / Xlsx / Pptx / Jar / APK as translated from the current source on this run never panic and equal zip_contains and the node models for every input, marker and msoCheck (C19_zip_walk_is_the_source, C19_zip_detectors_are_the_source)",
    "not_proved": "that archive/zip (and other standard writers) produce layouts meeting the conditions - decided on archives written by archive/zip with the entry list read back as oracle; layouts violating them are the known findings K2 (footprint < 26) and K5 (name continued by content); K3 is the apk-before-jar priority",
    "assumptions": COMMON_ASSUME + ["bodies free of embedded zip signatures (filtered by the generator)"],
}

PROPS["C05"] = {
    "channels": [{"cmd": "run-c05"}],
    "cone": r"^MISMATCH (reader|harness|driver)",
    "rule": "inputs (empty, 1 byte, PDF/JSON/CSV/HTML/PNG/zip headers, random, the testdata files) x limits {0, 3072, 1, len-1, len/2, len, len+1, 2^22} x chunk schedules (plain, 1-byte, 3-byte, zero-length reads, data together with EOF, Fibonacci, random) and an injected sentinel error at every byte offset 0..min(len,limit)+1 (single chunk and 2-byte chunks); a root-level spy extension records the exact (header, limit) handed to the tree walk, the reader counts bytes delivered; compared with the reader model and judged directly (agreement with Detect, consumed <= limit, error surfaces with application/octet-stream); DetectFile on temp files, a directory and a missing path; non-trivial = scripted (non-plain) reader",
    "proved": "reader_agrees (all inputs, limits, failure-free scripts incl. zero-length reads and data with EOF): header = hdr limit x, no error, consumed <= limit (= len for limit 0); an injected error after ANY failure-free prefix of reads: the outcome is either that of the failure-free case or errMIME with exactly that error (C05_error_anywhere), and it is the error whenever the preceding reads offer fewer bytes than the input holds and the limit asks for (C05_error_before_header)",
    "not_proved": "that io.ReadFull / io.ReadAll / DetectReader are the modelled loops (correspondence with scripted readers); os.File assumed conforming; DetectFile = open + DetectReader is exercised only",
    "assumptions": COMMON_ASSUME + ["a buffer of `limit` bytes behaves like one of min(limit, len+1) bytes (model abstraction)", "os.File is a conforming reader"],
}

PROPS["C14"] = {
    "channels": [{"cmd": "run-c14", "shards": 8}],
    "cone": r"^MISMATCH (walk|harness|driver)",
    "rule": "24 (thorough 400) random histories of 1-8 Extend calls on the root, on built-in formats at every depth and on earlier extensions, detectors from a serialisable family (prefix, byte-at-offset, minimum length, always, never), caller-owned alias slices with spare capacity; each history in a fresh process: after every call the dumped pointer graph must equal the model's insert-in-front tree and parent pointers must agree with children lists; 18 probe inputs x limits {3072, 0}: Detect must equal the first-match walk over the enlarged tree driven by the observed verdicts, inputs rejected by every extension must be classified as in an extension-free process; Lookup of every extension name and alias (right parent, Is); a result taken before the calls is re-read afterwards",
    "proved": "Extend prepends; priority and containment; non-interference; histories: for all trees, verdict functions and op sequences; Lookup = first node in flatten order carrying the name, the extension sits directly behind its parent in that order, hence a fresh extension name or alias resolves to the extension and every other name resolves as before (C14_lookup_*)",
    "not_proved": "aliasing of the caller's alias slice backing array is a runtime fact (checked on the code)",
    "assumptions": COMMON_ASSUME + ["extension detectors are pure total predicates of (header, limit)"],
}

PROPS["C13"] = {
    "channels": [{"cmd": "run-c13"}, {"cmd": "run-json", "shards": 8}],
    "cone": r"^MISMATCH (csv|ndjson|json|harness|driver)",
    "rule": "rectangular CSV / TSV tables (2-5 columns, 2-7 rows) and one-value-per-line JSON streams, LF and CRLF, with and without final newline, examined whole and at every limit from the end of the second line to len+2; one damaged line (ragged row / cut-off or trailing-garbage JSON value) before the last line; '#' comment lines inside tables; single-line files; fixed corner cases; Csv/Tsv vs the quote-free encoding/csv model, NdJSON vs model; non-trivial = result other than text/plain",
    "proved": "both directions on the model. Forward: the lines visited for a header `complete lines ++ incomplete line` are exactly the complete lines (the incomplete one is ignored, whatever it holds); NDJSON / CSV / TSV are recognised for >= 2 complete well-formed lines followed by any incomplete line, and every cut of a file of lines at or after the end of its second line has that shape (any limit from end of line 2 to the end of the file, LF and CRLF); whole-mode variants. Converse: ndjson_only_if (>= 2 lines, every complete line parsed in full or blank, one object/array; parsed lines are relaxed JSON values, from C09); csv_only_if",
    "not_proved": "CSV/TSV theorems are about the quote-free hand model of encoding/csv (quoted fields are an oracle); the type is kept only if no higher-priority detector claims the header (decided on the implementation); model = Go by correspondence",
    "assumptions": COMMON_ASSUME + ["encoding/csv behaves as the quote-free hand model (validated by correspondence)", "bufio.Reader.Reset discards all state"],
}

PROPS["C02"] = {
    "channels": [{"cmd": "run-c02"}, {"cmd": "run-det", "shards": 16}, {"cmd": "run-c14", "shards": 8}],
    "cone": r"^MISMATCH (walk|harness|driver)",
    "data_obligations": ["flatten tree0 = ids of nodes", "height tree0 = 4", "every registered type and alias is a lower-case token/token", "errMIME is the bare root"],
    "rule": "(a) mime.FormatMediaType -> mime.ParseMediaType on every 1-byte label, a hostile list (quotes, separators, backslash, CR/LF, NUL, DEL, non-ASCII, invalid UTF-8, 4 kB) and random 1-6 byte labels: the label must come back unchanged; (b) HTML / XML documents declaring those labels through Detect at limits {3072, 0, 40}, and every detector seed: String() must parse, (type, extension) must be a registered format, the only parameter is charset and only on the three text types, ancestors parameter-free and registered, chain ends at application/octet-stream (extracted predicate c02_judge); (c) failing readers / missing file: the value is exactly application/octet-stream; non-trivial = result carries a charset",
    "proved": "the reported chain consists of registered formats, is 1-4 long and rooted (all verdict functions); registered names are media types; error value",
    "not_proved": "FormatMediaType/ParseMediaType round trip (Go standard library): checked on the implementation",
    "assumptions": COMMON_ASSUME + ["mime.FormatMediaType / mime.ParseMediaType round-trip every parameter value (checked on all generated labels)"],
}
PROPS["C15"] = {
    "channels": [{"cmd": "run-c15"}],
    "cone": r"^MISMATCH (harness|driver)",
    "data_obligations": ["every registered name resolves through lookup to a node that Is it", "names normalised"],
    "rule": "all 258 registered types and aliases x 8 decorations (upper / mixed case, surrounding blanks and tabs, parameter lists incl. quoted strings, RFC 2231 forms, q-values) through (*MIME).Is of the owning node, EqualsAny in both argument positions and Lookup; exactness: every node x every registered name (46k Is calls) against is_model with the normalisation supplied by mime.ParseMediaType; detection results incl. quoted / RFC 2231-encoded charset parameters: d.Is(d.String()), EqualsAny(d.String(), d.String()), Lookup(bare type).Is(d.String()); non-trivial = decorated name or own name",
    "proved": "is_spec (exactly type-or-alias), result_is_itself, every_name_resolves and names_normalised on the regenerated tree",
    "not_proved": "mime.ParseMediaType's normalisation (case, white space, parameters) is the Go standard library's: an oracle here",
    "assumptions": COMMON_ASSUME + ["mime.ParseMediaType is the normaliser the property refers to"],
}

PROPS["C04"] = {
    "channels": [{"cmd": "run-c04", "driver": False, "shards": 1}, {"cmd": "run-json"}, {"cmd": "run-c06", "kind": "race", "reps": 4}],
    "cone": r"^MISMATCH (json|json-fuel|ndjson|harness|driver)",
    "rule": "reference: each of ~55 (input, limit) pairs detected alone in a fresh child process; then 40 (thorough 1500) single-goroutine histories of 2-30 detections (geojson/har/gltf after aborted deep parses, 9 kB documents, cut documents, CSV of width 7 then 2, ragged and quoted CSV, NDJSON, HTML/XML) with dirty recycled parser states injected through the hook, 8 goroutines detecting concurrently, bytes beyond the limit inverted; every result must equal the reference; the caller's buffer and 32 bytes of spare capacity are hashed before and after; json channel: Parse with all four queries after injecting dirty states vs the pure model",
    "proved": "the model's Detect depends on the header only (same first `limit` bytes => same result; bytes past the limit irrelevant); reset erases every field a scan reads; Parse on any recycled state = Parse on a fresh state of the same cap; history_pure for every op list and pool behaviour under the pool invariant (cap constant)",
    "data_obligations": ["input_writes = [] (harness/inwrites.go: on this run no statement of mimetype.go, mime.go, tree.go, internal/magic, internal/json, internal/charset assigns an element of, copies into, appends to or hands to a buffer-filling call a []byte / readBuf parameter or a local derived from one; conservative syntactic taint analysis)"],
    "not_proved": "immutability of the caller's buffer is a regenerated syntactic obligation plus hashing on the implementation (not a semantic proof: reflection, unsafe and writes inside the standard library are out of its sight); the bufio.Reader pool is established on the implementation only",
    "assumptions": COMMON_ASSUME + ["sync.Pool.Get returns a previously Put value or New()", "bufio.Reader.Reset discards all state"],
}

PROPS["C06"] = {
    "channels": [{"cmd": "run-c06", "kind": "race", "reps": 8}],
    "cone": r"^MISMATCH (harness|driver)",
    "level": "proof",
    "data_obligations": ["disciplined Access.programs = true (programs extracted from mimetype.go / mime.go / tree.go on this run)"],
    "rule": "a -race build of the harness: 6 reader goroutines (Detect + accessors, DetectReader, Lookup + accessors of the looked-up node) x 300 (thorough 6000) rounds against 2 writers (6 Extend calls: package level, on looked-up built-ins, on an earlier extension; caller-owned alias slices with spare capacity 0, 2, 4, 8; SetLimit cycling over {3072, 8, 0, 64}), repeated in 8 (thorough 32) processes at GOMAXPROCS 2/4/8/16; any `DATA RACE` report is a failure; every result must occur in the table a fresh sequential process produces for some (number of extensions applied, limit); non-trivial/distinct = entries of that table",
    "proved": "mutual exclusion of the RWMutex model; discipline_excludes (every interleaving, any number of threads); the extracted entry points obey the discipline (regenerated obligation); sequences of calls",
    "not_proved": "Go memory model, sync.Pool internals, scheduler, word tearing: not modelled; linearisation of results is checked on the implementation against the sequential oracle",
    "assumptions": COMMON_ASSUME + ["sync.RWMutex and sync/atomic behave as specified", "the access extractor (harness/access.go) sees every access: fields reached through same-package calls are inlined; closures (detectors) are opaque"],
}
