"""Per-property configuration of bin/check: channels, cone of correspondence mismatches that count,
what is proved, assumptions."""

COMMON_ASSUME = [
    "64-bit int (linux/amd64); slices handed to detectors have cap >= len only",
    "stdlib calls neither panic nor diverge",
]

PROPS = {
    "C03": {
        "channels": [{"cmd": "run-det"}],
        "cone": r"^MISMATCH (walk|harness|driver)",
        "rule": "seed inputs (one positive per signature literal of /repo, testdata files, writer-produced tar/zip/OLE/JSON/HTML/CSV, multi-match inputs) x boundary truncations x limits {0,3072,len-1,len,len+1,1,2^32-1} x byte mutations + random short strings; for each, the chain Detect reports must equal the first-match walk over the regenerated tree driven by the verdicts Go's own detectors returned; distinct = hash of (limit, header); non-trivial = some non-root detector accepted",
        "proved": "walk = declarative first-match path (sound+complete), ancestors accept, no child of the result accepts, consulted only below accepting nodes: for every tree, every verdict function; instance on Detect over the regenerated tree",
        "not_proved": "that Go's match/cloneHierarchy implement `walk` is established by the walk correspondence channel, not by proof",
        "assumptions": COMMON_ASSUME + ["detectors are pure total predicates of (header, limit)"],
    },
    "C07": {
        "channels": [{"cmd": "run-c07"}],
        "cone": r"^MISMATCH (walk|harness|driver)",
        "cone_nodes": ["text"],
        "data_obligations": ["Tables.boms = Spec.spec_boms", "only node `text` has MIME text/plain", "text is the last root child", "node text's detector is magic.Text"],
        "rule": "each of the 28 binary data bytes x every position of text seeds x {inside the limit, just past the limit, last examined byte}; every BOM x binary tails x limits and cuts; non-binary control bytes; the empty input; all detector seeds with one byte replaced by a binary byte; judged by the extracted spec predicate text_spec on the examined header; non-trivial = some non-root detector accepted",
        "proved": "magic.Text = (BOM or no WHATWG binary byte) for every byte string; text/plain in hierarchy => text_spec(header); text_spec(header) => result is not the bare root (all inputs, limits, oracles)",
        "not_proved": "",
        "assumptions": COMMON_ASSUME,
    },
    "C17": {
        "channels": [{"cmd": "run-c17"}, {"cmd": "run-det", "args": []}],
        "cone": r"^MISMATCH (walk|harness|driver)",
        "cone_nodes": "root_children",
        "data_obligations": ["every root child except text is in the monotone class or is ttf", "mdb/accdb are root children with the signatures ttf excludes", "text is the last root child"],
        "rule": "c17: every seed (and mutated / shifted variants) is detected at every limit 1..len+1 and at 0; once a limit gives a non-text root format every larger limit must too; non-trivial = the input is binary at some but not all limits. det: the detector correspondence on the same seed family (root children are the cone)",
        "proved": "limit_monotone for all inputs < 4 GiB, all limit pairs, all oracles; GoLite monotonicity analysis sound; tar/crx/matroska monotone; ttf hand-over",
        "not_proved": "inputs of 4 GiB or more (uint32(len(raw)) wraps in CRX)",
        "assumptions": COMMON_ASSUME + ["input shorter than 4 GiB"],
    },
    "C01": {
        "channels": [{"cmd": "run-det"}],
        "cone": None,
        "rule": "same stream as C03 with every detector called directly under recover on an exact-capacity copy and on a prefix of a poisoned larger buffer; a panic, a poison-dependent verdict, a nil result or a 10 s hang is a property failure",
        "proved": "",
        "not_proved": "",
        "assumptions": COMMON_ASSUME,
    },
}

PROPS["C16"] = {
    "channels": [{"cmd": "run-c16"}],
    "cone": r"^MISMATCH (json|json-fuel|harness|driver)",
    "rule": "documents nested exactly at, one and two levels past the recursion cap (closed, examined whole; open, truncated mode), verdict compared with the model; bombs of 10^4..10^6 (thorough: 10^7) levels in four shapes ('[', '{\"k\":', mixed, padded), open and closed, at limits 0 and 2^32-1, run in a process whose maximum stack is 16 MB: must return, must not be reported as JSON; a fatal stack overflow kills the shard (no DONE line) and is reported",
    "proved": "",
    "assumptions": COMMON_ASSUME + ["Go recursion depth equals the model's lvl structure (two frames per level)"],
}

JSON_ASSUME = COMMON_ASSUME + ["fuel 2*len+2 suffices (model flag oof never raised in any run; proved separately where stated)"]

PROPS["C09"] = {
    "channels": [{"cmd": "run-json-exh"}, {"cmd": "run-json"}],
    "cone": r"^MISMATCH (json|json-fuel|judge|ndjson|harness|driver)",
    "exhaustive": True,
    "rule": "jexh: every string over the 18-symbol alphabet `[]{},:\"\\a1-.e tu0n` up to length 5 (quick) / 6 (thorough), in whole mode (limit 0) and truncated mode (limit = len): implementation verdict vs model vs the independent grammar judge; json: generated RFC 8259 documents x every cut x four queries with dirty recycled pool states, token mutations (delete/duplicate/swap/insert structural bytes), fixed tricky strings; non-trivial = accepted by some JSON-family detector",
    "proved": "C09 in full on the model: accounting invariant, scanner soundness w.r.t. the relaxed grammar, partial soundness with explicit completions, json_sound_whole, json_sound_truncated for every query / token set / recursion cap",
    "not_proved": "",
    "assumptions": JSON_ASSUME,
}
